From Coq Require Import ZArith Reals Lra.
From Flocq Require Import Core BinarySingleNaN.
Require Import GV.FloatBase GV.FloatLemmas GV.AngleM GV.AngleProofs GV.NewProofs GV.CtorProofs GV.GeonumM GV.GeonumProofs GV.PiBounds GV.TrigProofs GV.DotValue GV.DirProofs.
Open Scope R_scope.
Require Import GV.Properties.C03.
Check C03_spellings : forall a b,
  add_vv a b = geometric_add a b /\ add_vr a b = geometric_add a b /\
  add_rv a b = geometric_add a b /\ add_rr a b = geometric_add a b /\
  mul_vv a b = geometric_add a b /\ mul_vr a b = geometric_add a b /\
  mul_rv a b = geometric_add a b /\ mul_rr a b = geometric_add a b /\
  rotate a b = geometric_add a b.
Print Assumptions C03_spellings.
Check C03_add_comm : forall a b, geometric_add a b = geometric_add b a.
Print Assumptions C03_add_comm.
Check C03_add_canon_carry : forall a b, canonp (rem a) -> canonp (rem b) ->
  canonp (rem (geometric_add a b)) /\
  (blade (geometric_add a b) = blade a + blade b \/ blade (geometric_add a b) = blade a + blade b + 1)%Z.
Print Assumptions C03_add_canon_carry.
Check C03_add_zero_r : forall a, Canon a -> aeq (geometric_add a zero_angle) a.
Print Assumptions C03_add_zero_r.
Check C03_add_zero_l : forall a, Canon a -> aeq (geometric_add zero_angle a) a.
Print Assumptions C03_add_zero_l.
Check C03_add_total : forall a b, canonp (rem a) -> canonp (rem b) ->
  Rabs (theta (geometric_add a b) - (theta a + theta b)) <= R_ eps10 + / 2251799813685248.
Print Assumptions C03_add_total.
Check C03_add_assoc : forall a b c, canonp (rem a) -> canonp (rem b) -> canonp (rem c) ->
  Rabs (theta (geometric_add (geometric_add a b) c) - theta (geometric_add a (geometric_add b c)))
    <= 4 * (R_ eps10 + / 2251799813685248).
Print Assumptions C03_add_assoc.
Check C03_direction : forall a b, canonp (rem a) -> canonp (rem b) ->
  Rabs (dirR (geometric_add a b) - (dirR a + dirR b)) <= R_ eps10 + / 2251799813685248 + 1 / 10000000000000000.
Print Assumptions C03_direction.
