From Coq Require Import ZArith Reals Lra.
From Flocq Require Import Core BinarySingleNaN.
Require Import GV.FloatBase GV.FloatLemmas GV.AngleM GV.AngleProofs GV.NewProofs GV.CtorProofs GV.GeonumM GV.PiBounds GV.TrigProofs GV.DotValue.
Open Scope R_scope.
Require Import GV.Properties.C04.
Check C04_spellings : forall a b,
  sub_vv a b = geometric_sub a b /\ sub_vr a b = geometric_sub a b /\
  sub_rv a b = geometric_sub a b /\ sub_rr a b = geometric_sub a b /\
  diva_vv a b = geometric_sub a b /\ diva_vr a b = geometric_sub a b /\
  diva_rv a b = geometric_sub a b /\ diva_rr a b = geometric_sub a b.
Print Assumptions C04_spellings.
Check C04_divf_spellings : forall a k, divf_v a k = divf_r a k.
Print Assumptions C04_divf_spellings.
Check C04_sub_self : forall a, fin (rem a) -> geometric_sub a a = {| rem := zero; blade := 0 |}.
Print Assumptions C04_sub_self.
Check C04_sub_canon : forall a b, canonp (rem a) -> canonp (rem b) ->
  canonp (rem (geometric_sub a b)) /\ (0 <= blade (geometric_sub a b))%Z.
Print Assumptions C04_sub_canon.
Check C04_sub_blade : forall a b, canonp (rem a) -> canonp (rem b) ->
  exists borrow carry : Z, (0 <= borrow <= 1)%Z /\ (0 <= carry <= 1)%Z /\
    blade (geometric_sub a b) = (lift_blade (blade a - blade b - borrow) + carry)%Z.
Print Assumptions C04_sub_blade.
Check C04_lift_range : forall d, (d < 0)%Z -> (0 <= lift_blade d <= 3)%Z /\ (lift_blade d mod 4 = d mod 4)%Z.
Print Assumptions C04_lift_range.
Check C04_sub_total : forall a b, canonp (rem a) -> canonp (rem b) -> (blade b + 1 <= blade a)%Z ->
  Rabs (theta (geometric_sub a b) - (theta a - theta b)) <= R_ eps10 + 3 * / 4503599627370496.
Print Assumptions C04_sub_total.
Check C04_add_sub : forall a b, canonp (rem a) -> canonp (rem b) -> (1 <= blade a)%Z ->
  Rabs (theta (geometric_sub (geometric_add a b) b) - theta a) <= 2 * R_ eps10 + 5 * / 4503599627370496.
Print Assumptions C04_add_sub.
Check C04_divf : forall a k, Canon a -> (blade a < 2 ^ 50)%Z -> fin k ->
  bpow radix2 (-900) <= R_ k <= bpow radix2 900 -> theta a / R_ k <= bpow radix2 41 ->
  0 < R_ (total_angle (fdiv (float_total a) k) PI) ->
  Canon (divf_v a k) /\
  Rabs (theta (divf_v a k) - theta a / R_ k)
    <= R_ eps10 + / 4503599627370496 + bpow radix2 (-69) + bpow radix2 (-49) * (theta a / R_ k).
Print Assumptions C04_divf.
Check C04_total_any : forall a b, canonp (rem a) -> canonp (rem b) ->
  exists j : Z, (0 <= j)%Z /\
  Rabs (theta (geometric_sub a b) - (theta a - theta b) - IZR (4 * j) * R_ Q) <= R_ eps10 + 3 * / 4503599627370496.
Print Assumptions C04_total_any.
Check C04_direction : forall a b, canonp (rem a) -> canonp (rem b) ->
  exists j : Z, (0 <= j)%Z /\
  Rabs (dirR (geometric_sub a b) - (dirR a - dirR b) - 2 * IZR j * Rtrigo1.PI)
    <= R_ eps10 + 3 * / 4503599627370496 + 2 / 10000000000000000.
Print Assumptions C04_direction.
