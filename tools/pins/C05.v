From Coq Require Import ZArith List Bool Reals Lra.
From Flocq Require Import Core BinarySingleNaN.
Require Import GV.FloatBase GV.FloatLemmas GV.AngleM GV.AngleProofs GV.GeonumM GV.GeonumProofs.
Open Scope R_scope.
Require Import GV.Properties.C05.
Check C05_mul : forall a b,
  mag (gmul_vv a b) = fmul (mag a) (mag b) /\ ang (gmul_vv a b) = geometric_add (ang a) (ang b).
Print Assumptions C05_mul.
Check C05_mul_spellings : forall a b,
  gmul_rr a b = gmul_vv a b /\ gmul_rv a b = gmul_vv a b /\ gmul_vr a b = gmul_vv a b.
Print Assumptions C05_mul_spellings.
Check C05_mul_comm : forall a b, gmul_vv a b = gmul_vv b a.
Print Assumptions C05_mul_comm.
Check C05_mul_one : forall g, fin (mag g) -> Canon (ang g) ->
  mag (gmul_vv g gone) = mag g /\ aeq (ang (gmul_vv g gone)) (ang g).
Print Assumptions C05_mul_one.
Check C05_mul_angle : forall a b, canonp (rem (ang a)) -> canonp (rem (ang b)) ->
  canonp (rem (ang (gmul_vv a b))) /\
  (blade (ang (gmul_vv a b)) = blade (ang a) + blade (ang b) \/
   blade (ang (gmul_vv a b)) = blade (ang a) + blade (ang b) + 1)%Z /\
  Rabs (theta (ang (gmul_vv a b)) - (theta (ang a) + theta (ang b))) <= R_ eps10 + / 2251799813685248.
Print Assumptions C05_mul_angle.
Check C05_scale : forall g f, fin f -> canonp (rem (ang g)) ->
  mag (gscale g f) = fmul (mag g) (fabs f) /\
  steps_to (ang g) (ang (gscale g f)) (if Rle_bool 0 (R_ f) then 0 else 2).
Print Assumptions C05_scale.
Check C05_angle_mul : forall a g,
  amulg_v a g = {| mag := mag g; ang := geometric_add a (ang g) |} /\
  amulg_r a g = amulg_v a g /\ aaddg_v a g = amulg_v a g /\ aaddg_r a g = amulg_v a g.
Print Assumptions C05_angle_mul.
Check C05_inv : forall g,
  (inv g = None <-> feq (mag g) zero = true) /\
  (forall r, inv g = Some r -> mag r = fdiv one (mag g) /\ ang r = negate (ang g)).
Print Assumptions C05_inv.
Check C05_inv_angle : forall g, canonp (rem (ang g)) -> steps_to (ang g) (negate (ang g)) 2.
Print Assumptions C05_inv_angle.
Check C05_div_spellings : forall a b,
  gdiv_rr a b = gdiv_vv a b /\ gdiv_rv a b = gdiv_vv a b /\ gdiv_vr a b = gdiv_vv a b /\
  gdiv_method a b = gdiv_vv a b /\ gdiv_vv a b = omap (gmul_vv a) (inv b).
Print Assumptions C05_div_spellings.
Check C05_normalize : forall g,
  (normalize g = None <-> feq (mag g) zero = true) /\
  (forall r, normalize g = Some r -> mag r = one /\ ang r = ang g).
Print Assumptions C05_normalize.
Check C05_pow_mag : forall (L : libm) g n, mag (gpow L g n) = powF L (mag g) n.
Print Assumptions C05_pow_mag.
