From Coq Require Import ZArith List Bool Reals Lra.
From Flocq Require Import Core BinarySingleNaN.
Require Import GV.FloatBase GV.FloatLemmas GV.AngleM GV.AngleProofs GV.GeonumM GV.GeonumProofs GV.TraitsM GV.NewProofs GV.CtorProofs GV.PiBounds GV.TrigProofs GV.DotValue GV.DistValue GV.ClosureProofs GV.SumUpper GV.DirProofs GV.SumDir GV.Atan2Ideal GV.SubCart.
Open Scope R_scope.
Require Import GV.Properties.C06.
Check C06_sub_is_add_neg : forall (L : libm) a b,
  gsub_vv L a b = gadd_vv L a (gnegate b) /\ gsub_rr L a b = gsub_vv L a b /\
  gsub_rv L a b = gsub_vv L a b /\ gsub_vr L a b = gsub_vv L a b.
Print Assumptions C06_sub_is_add_neg.
Check C06_add_spellings : forall (L : libm) a b,
  gadd_rr L a b = gadd_vv L a b /\ gadd_rv L a b = gadd_vv L a b /\ gadd_vr L a b = gadd_vv L a b.
Print Assumptions C06_add_spellings.
Check C06_translate : forall (L : libm) a b, translate L a b = gadd_vv L a b.
Print Assumptions C06_translate.
Check C06_paths : forall (L : libm) a b,
  (aeqb (ang a) (ang b) = true -> gadd_vv L a b = {| mag := fadd (mag a) (mag b); ang := ang a |}) /\
  (aeqb (ang a) (ang b) = false ->
   aeqb (add_vv (ang a) (new one one)) (ang b) || aeqb (add_vv (ang b) (new one one)) (ang a) = true ->
   let diff := fsub (mag a) (mag b) in
   gadd_vv L a b =
     if flt (fabs diff) EPSILON then {| mag := zero; ang := new_with_blade (blade (ang a) + blade (ang b)) zero one |}
     else if fgt diff zero then {| mag := diff; ang := ang a |} else {| mag := fneg diff; ang := ang b |}) /\
  (aeqb (ang a) (ang b) = false ->
   aeqb (add_vv (ang a) (new one one)) (ang b) || aeqb (add_vv (ang b) (new one one)) (ang a) = false ->
   nonneg_or_inf (mag (gadd_vv L a b))).
Print Assumptions C06_paths.
Check C06_radicand_total : forall x, nonneg_or_inf (fsqrt (fmax x zero)).
Print Assumptions C06_radicand_total.
Check C06_mag_value : forall (L : libm) (u : R) a b, cos_acc L u -> u <= / 1000 ->
  canonp (rem (ang a)) -> canonp (rem (ang b)) ->
  aeqb (ang a) (ang b) = false ->
  aeqb (add_vv (ang a) (new one one)) (ang b) || aeqb (add_vv (ang b) (new one one)) (ang a) = false ->
  fin (gadd_rad L a b) ->
  let S := R_ (mag a) * R_ (mag a) + R_ (mag b) * R_ (mag b) in
  let D := S + 2 * R_ (mag a) * R_ (mag b) * cos (dir (ang b) - dir (ang a)) in
  let Bnd := S * (u + 1 / 100000000000000) + 10 * bpow radix2 (-1075) in
  0 <= D /\
  Rabs (R_ (mag (gadd_vv L a b)) - sqrt D)
    <= sqrt Bnd * (1 + / 9007199254740992) + / 9007199254740992 * sqrt D + bpow radix2 (-1075).
Print Assumptions C06_mag_value.
Check C06_atan2_acc_def : forall (L : libm) (u2 : R), atan2_acc L u2 <->
  (forall y x, fin y -> fin x ->
    fin (atan2F L y x) /\ Rabs (R_ (atan2F L y x)) <= R_ PI /\
    exists theta, Rabs (R_ (atan2F L y x) - theta) <= u2 /\
      R_ x = sqrt (R_ x * R_ x + R_ y * R_ y) * cos theta /\
      R_ y = sqrt (R_ x * R_ x + R_ y * R_ y) * sin theta).
Print Assumptions C06_atan2_acc_def.
Check C06_reencode_direction : forall (at_ : F) n, fin at_ -> Rabs (R_ at_) <= R_ PI -> (0 <= n < 2 ^ 40)%Z ->
  let r := new_with_blade n (fsub at_ (fdiv (fmul (of_Z n) PI) two)) PI in
  canonp (rem r) /\ (n <= blade r <= n + 4)%Z /\
  exists J : Z, (0 <= J)%Z /\
    Rabs (dirR r - (R_ at_ + 2 * Rtrigo1.PI * IZR J))
      <= R_ eps10 + 3 / 100000000000000 + IZR n * (4 / 1000000000000000).
Print Assumptions C06_reencode_direction.
Check C06_cartesian : forall (L : libm) (u u2 : R) a b, cos_acc L u -> sin_acc L u -> atan2_acc L u2 -> u <= / 1000 ->
  canonp (rem (ang a)) -> canonp (rem (ang b)) ->
  aeqb (ang a) (ang b) = false ->
  aeqb (add_vv (ang a) (new one one)) (ang b) || aeqb (add_vv (ang b) (new one one)) (ang a) = false ->
  (0 <= blade (ang a) + blade (ang b) < 2 ^ 40)%Z ->
  fin (gadd_rad L a b) ->
  fin (fadd (fmul (mag a) (sinF L (grade_angle (ang a)))) (fmul (mag b) (sinF L (grade_angle (ang b))))) ->
  fin (fadd (fmul (mag a) (cosF L (grade_angle (ang a)))) (fmul (mag b) (cosF L (grade_angle (ang b))))) ->
  let r := gadd_vv L a b in
  let Vx := R_ (mag a) * cos (dir (ang a)) + R_ (mag b) * cos (dir (ang b)) in
  let Vy := R_ (mag a) * sin (dir (ang a)) + R_ (mag b) * sin (dir (ang b)) in
  let M := Rabs (R_ (mag a)) + Rabs (R_ (mag b)) in
  let E := M * (u + 3 / 1000000000000000) + 4 * bpow radix2 (-1075) in
  let S := R_ (mag a) * R_ (mag a) + R_ (mag b) * R_ (mag b) in
  let Bnd := S * (u + 1 / 100000000000000) + 10 * bpow radix2 (-1075) in
  let tolN := R_ eps10 + 3 / 100000000000000 + IZR (blade (ang a) + blade (ang b)) * (4 / 1000000000000000) in
  let T := sqrt Bnd * (1 + / 9007199254740992) + / 9007199254740992 * sqrt (Vx * Vx + Vy * Vy) + bpow radix2 (-1075)
           + 3 * E + (M + 2 * E) * (u2 + tolN) in
  Rabs (R_ (mag r) * cos (dirR (ang r)) - Vx) <= T /\ Rabs (R_ (mag r) * sin (dirR (ang r)) - Vy) <= T.
Print Assumptions C06_cartesian.
Check C06_premises_inhabited : exists L : libm,
  cos_acc L (/ 4503599627370496) /\ sin_acc L (/ 4503599627370496) /\
  atan2_acc L (/ 1125899906842624) /\ / 4503599627370496 <= / 1000.
Print Assumptions C06_premises_inhabited.
Check C06_cartesian_sub : forall (L : libm) (u u2 : R) a b, cos_acc L u -> sin_acc L u -> atan2_acc L u2 -> u <= / 1000 ->
  canonp (rem (ang a)) -> canonp (rem (ang b)) -> (0 <= blade (ang b))%Z ->
  let nb := gnegate b in
  aeqb (ang a) (ang nb) = false ->
  aeqb (add_vv (ang a) (new one one)) (ang nb) || aeqb (add_vv (ang nb) (new one one)) (ang a) = false ->
  (0 <= blade (ang a) + blade (ang nb) < 2 ^ 40)%Z ->
  fin (gadd_rad L a nb) ->
  fin (fadd (fmul (mag a) (sinF L (grade_angle (ang a)))) (fmul (mag nb) (sinF L (grade_angle (ang nb))))) ->
  fin (fadd (fmul (mag a) (cosF L (grade_angle (ang a)))) (fmul (mag nb) (cosF L (grade_angle (ang nb))))) ->
  let r := gsub_vv L a b in
  let Wx := R_ (mag a) * cos (dir (ang a)) - R_ (mag b) * cos (dir (ang b)) in
  let Wy := R_ (mag a) * sin (dir (ang a)) - R_ (mag b) * sin (dir (ang b)) in
  let M := Rabs (R_ (mag a)) + Rabs (R_ (mag b)) in
  let E := M * (u + 3 / 1000000000000000) + 4 * bpow radix2 (-1075) in
  let S := R_ (mag a) * R_ (mag a) + R_ (mag b) * R_ (mag b) in
  let Bnd := S * (u + 1 / 100000000000000) + 10 * bpow radix2 (-1075) in
  let tolN := R_ eps10 + 3 / 100000000000000 + IZR (blade (ang a) + blade (ang nb)) * (4 / 1000000000000000) in
  let T := sqrt Bnd * (1 + / 9007199254740992) + / 9007199254740992 * sqrt (Wx * Wx + Wy * Wy) + bpow radix2 (-1075)
           + 3 * E + (M + 2 * E) * (u2 + tolN) in
  Rabs (R_ (mag r) * cos (dirR (ang r)) - Wx) <= T /\ Rabs (R_ (mag r) * sin (dirR (ang r)) - Wy) <= T.
Print Assumptions C06_cartesian_sub.
