From Coq Require Import ZArith List Bool Reals Lra.
From Flocq Require Import Core BinarySingleNaN.
Require Import GV.FloatBase GV.FloatLemmas GV.AngleM GV.AngleProofs GV.GeonumM GV.GeonumProofs GV.TraitsM GV.NewProofs GV.CtorProofs GV.PiBounds GV.TrigProofs GV.DotValue GV.DistValue.
Open Scope R_scope.
Require Import GV.Properties.C06.
Check C06_sub_is_add_neg : forall (L : libm) a b,
  gsub_vv L a b = gadd_vv L a (gnegate b) /\ gsub_rr L a b = gsub_vv L a b /\
  gsub_rv L a b = gsub_vv L a b /\ gsub_vr L a b = gsub_vv L a b.
Print Assumptions C06_sub_is_add_neg.
Check C06_add_spellings : forall (L : libm) a b,
  gadd_rr L a b = gadd_vv L a b /\ gadd_rv L a b = gadd_vv L a b /\ gadd_vr L a b = gadd_vv L a b.
Print Assumptions C06_add_spellings.
Check C06_translate : forall (L : libm) a b, translate L a b = gadd_vv L a b.
Print Assumptions C06_translate.
Check C06_paths : forall (L : libm) a b,
  (aeqb (ang a) (ang b) = true -> gadd_vv L a b = {| mag := fadd (mag a) (mag b); ang := ang a |}) /\
  (aeqb (ang a) (ang b) = false ->
   aeqb (add_vv (ang a) (new one one)) (ang b) || aeqb (add_vv (ang b) (new one one)) (ang a) = true ->
   let diff := fsub (mag a) (mag b) in
   gadd_vv L a b =
     if flt (fabs diff) EPSILON then {| mag := zero; ang := new_with_blade (blade (ang a) + blade (ang b)) zero one |}
     else if fgt diff zero then {| mag := diff; ang := ang a |} else {| mag := fneg diff; ang := ang b |}) /\
  (aeqb (ang a) (ang b) = false ->
   aeqb (add_vv (ang a) (new one one)) (ang b) || aeqb (add_vv (ang b) (new one one)) (ang a) = false ->
   nonneg_or_inf (mag (gadd_vv L a b))).
Print Assumptions C06_paths.
Check C06_radicand_total : forall x, nonneg_or_inf (fsqrt (fmax x zero)).
Print Assumptions C06_radicand_total.
Check C06_mag_value : forall (L : libm) (u : R) a b, cos_acc L u -> u <= / 1000 ->
  canonp (rem (ang a)) -> canonp (rem (ang b)) ->
  aeqb (ang a) (ang b) = false ->
  aeqb (add_vv (ang a) (new one one)) (ang b) || aeqb (add_vv (ang b) (new one one)) (ang a) = false ->
  fin (gadd_rad L a b) ->
  let S := R_ (mag a) * R_ (mag a) + R_ (mag b) * R_ (mag b) in
  let D := S + 2 * R_ (mag a) * R_ (mag b) * cos (dir (ang b) - dir (ang a)) in
  let Bnd := S * (u + 1 / 100000000000000) + 10 * bpow radix2 (-1075) in
  0 <= D /\
  Rabs (R_ (mag (gadd_vv L a b)) - sqrt D)
    <= sqrt Bnd * (1 + / 9007199254740992) + / 9007199254740992 * sqrt D + bpow radix2 (-1075).
Print Assumptions C06_mag_value.
