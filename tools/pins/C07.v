From Coq Require Import ZArith List Bool Reals Lra.
From Flocq Require Import Core BinarySingleNaN.
Require Import GV.FloatBase GV.FloatLemmas GV.AngleM GV.AngleProofs GV.GeonumM GV.GeonumProofs GV.NewProofs GV.CtorProofs GV.PiBounds GV.TrigProofs GV.DotValue GV.DirProofs.
Open Scope R_scope.
Require Import GV.Properties.C07.
Check C07_angle_steps : forall a, canonp (rem a) ->
  steps_to a (dual a) 2 /\ steps_to a (undual a) 2 /\ steps_to a (negate a) 2 /\ steps_to a (conjugate a) 2.
Print Assumptions C07_angle_steps.
Check C07_geonum_steps : forall g, canonp (rem (ang g)) ->
  (mag (gdual g) = mag g /\ steps_to (ang g) (ang (gdual g)) 2) /\
  (mag (gundual g) = mag g /\ steps_to (ang g) (ang (gundual g)) 2) /\
  (mag (gnegate g) = mag g /\ steps_to (ang g) (ang (gnegate g)) 2) /\
  (mag (differentiate g) = mag g /\ steps_to (ang g) (ang (differentiate g)) 1) /\
  (mag (increment_blade g) = mag g /\ steps_to (ang g) (ang (increment_blade g)) 1) /\
  (mag (integrate g) = mag g /\ steps_to (ang g) (ang (integrate g)) 3) /\
  (mag (decrement_blade g) = mag g /\ steps_to (ang g) (ang (decrement_blade g)) 3).
Print Assumptions C07_geonum_steps.
Check C07_base_angle : forall a,
  blade (base_angle a) = (blade a mod 4)%Z /\ rem (base_angle a) = rem a /\
  grade a = (blade a mod 4)%Z /\ (0 <= grade a < 4)%Z.
Print Assumptions C07_base_angle.
Check C07_is_opposite : forall a b,
  is_opposite a b = true <->
  (Z.abs (blade a - blade b) = 2)%Z /\ flt (fabs (fsub (rem a) (rem b))) eps15 = true.
Print Assumptions C07_is_opposite.
Check C07_history : forall (ops : list (angle -> angle)) (ks : list Z) a,
  Forall2 (fun f k => forall x, canonp (rem x) -> steps_to x (f x) k) ops ks ->
  canonp (rem a) ->
  steps_to a (fold_left (fun x f => f x) ops a) (fold_left Z.add ks 0%Z).
Print Assumptions C07_history.
Check C07_four_more : forall g, canonp (rem (ang g)) ->
  steps_to (ang g) (ang (differentiate (differentiate (differentiate (differentiate g))))) 4 /\
  steps_to (ang g) (ang (gdual (gdual g))) 4 /\
  steps_to (ang g) (ang (integrate (differentiate g))) 4.
Print Assumptions C07_four_more.
Check C07_copy_blade : forall g other, canonp (rem (ang g)) ->
  (0 <= blade (ang g) < 2 ^ 50)%Z -> (0 <= blade (ang other) < 2 ^ 50)%Z ->
  mag (copy_blade g other) = mag g /\
  R_ (rem (ang (copy_blade g other))) = R_ (rem (ang g)) /\
  ((blade (ang g) <= blade (ang other))%Z -> blade (ang (copy_blade g other)) = blade (ang other)) /\
  ((blade (ang other) < blade (ang g))%Z ->
     (blade (ang g) + 3 <= blade (ang (copy_blade g other)) <= blade (ang g) + 6)%Z /\
     (blade (ang (copy_blade g other)) mod 4 = blade (ang other) mod 4)%Z).
Print Assumptions C07_copy_blade.
Check C07_grade_angle_range : forall a, canonp (rem a) ->
  fin (grade_angle a) /\ 0 <= R_ (grade_angle a) < 4 * R_ Q.
Print Assumptions C07_grade_angle_range.
Check C07_direction : forall a a' k, steps_to a a' k -> dirR a' = dirR a + IZR k * (Rtrigo1.PI / 2).
Print Assumptions C07_direction.
Check C07_half_turns : forall a, canonp (rem a) ->
  dirR (dual a) = dirR a + Rtrigo1.PI /\ dirR (undual a) = dirR a + Rtrigo1.PI /\
  dirR (negate a) = dirR a + Rtrigo1.PI /\ dirR (conjugate a) = dirR a + Rtrigo1.PI /\
  cos (dirR (dual a)) = - cos (dirR a) /\ sin (dirR (dual a)) = - sin (dirR a).
Print Assumptions C07_half_turns.
