From Coq Require Import ZArith List Bool Reals Lra.
From Flocq Require Import Core BinarySingleNaN.
Require Import GV.FloatBase GV.FloatLemmas GV.AngleM GV.AngleProofs GV.GeonumM GV.GeonumProofs GV.CollM GV.ShiftProofs GV.ShiftResults.
Open Scope Z_scope.
Require Import GV.Properties.C08.
Check C08_sub_shift : forall a b a' b',
  rem a' = rem a -> rem b' = rem b -> (blade a' - blade b') mod 4 = (blade a - blade b) mod 4 ->
  rem (geometric_sub a' b') = rem (geometric_sub a b) /\ grade (geometric_sub a' b') = grade (geometric_sub a b).
Print Assumptions C08_sub_shift.
Check C08_measurements : forall (L : libm) a b n m,
  dot L (gshift4 m a) (gshift4 n b) = dot L a b /\
  mag (wedge L (gshift4 m a) (gshift4 n b)) = mag (wedge L a b) /\
  distance_to L (gshift4 m a) (gshift4 n b) = distance_to L a b /\
  is_orthogonal L (gshift4 m a) (gshift4 n b) = is_orthogonal L a b /\
  aproject L (shift4 m (ang a)) (shift4 n (ang b)) = aproject L (ang a) (ang b) /\
  mag (gproject L (gshift4 m a) (gshift4 n b)) = mag (gproject L a b) /\
  project_to_angle L (gshift4 m a) (shift4 n (ang b)) = project_to_angle L a (ang b).
Print Assumptions C08_measurements.
Check C08_cone : forall (L : libm) d h g n m, cone_pred L (gshift4 n d) h (gshift4 m g) = cone_pred L d h g.
Print Assumptions C08_cone.
Check C08_trig : forall (L : libm) a n, gcos L (shift4 n a) = gcos L a /\ gsin L (shift4 n a) = gsin L a.
Print Assumptions C08_trig.
Check C08_result_blades : forall a b n m,
  rem (geometric_add (shift4 n a) (shift4 m b)) = rem (geometric_add a b) /\
  blade (geometric_add (shift4 n a) (shift4 m b)) = blade (geometric_add a b) + 4 * (n + m).
Print Assumptions C08_result_blades.
Check C08_result_values : forall (L : libm) a b n m,
  gmul_vv (gshift4 m a) (gshift4 n b) = gshift4 (m + n) (gmul_vv a b) /\
  wedge L (gshift4 m a) (gshift4 n b) = gshift4 (m + n) (wedge L a b) /\
  meet L (gshift4 m a) (gshift4 n b) = gshift4 (m + n) (meet L a b) /\
  gdual (gshift4 m a) = gshift4 m (gdual a) /\
  grotate (gshift4 m a) (shift4 n (ang b)) = gshift4 (m + n) (grotate a (ang b)).
Print Assumptions C08_result_values.
Check C08_project_result : forall (L : libm) a b n m, flt (fabs (mag b)) EPSILON = false ->
  gproject L (gshift4 m a) (gshift4 n b) = gshift4 n (gproject L a b).
Print Assumptions C08_project_result.
Check C08_shift_def : forall n a g, shift4 n a = {| rem := rem a; blade := blade a + 4 * n |} /\
  gshift4 n g = {| mag := mag g; ang := shift4 n (ang g) |}.
Print Assumptions C08_shift_def.
