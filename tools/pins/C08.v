From Coq Require Import ZArith List Bool Reals Lra.
From Flocq Require Import Core BinarySingleNaN.
Require Import GV.FloatBase GV.FloatLemmas GV.AngleM GV.AngleProofs GV.GeonumM GV.GeonumProofs GV.CollM GV.ShiftProofs GV.ShiftResults GV.NewProofs GV.CtorProofs GV.ClosureProofs GV.SumUpper GV.PiBounds GV.TrigProofs GV.DotValue GV.DistValue GV.DirProofs GV.SumDir GV.ShiftSum.
Open Scope Z_scope.
Require Import GV.Properties.C08.
Check C08_sub_shift : forall a b a' b',
  rem a' = rem a -> rem b' = rem b -> (blade a' - blade b') mod 4 = (blade a - blade b) mod 4 ->
  rem (geometric_sub a' b') = rem (geometric_sub a b) /\ grade (geometric_sub a' b') = grade (geometric_sub a b).
Print Assumptions C08_sub_shift.
Check C08_measurements : forall (L : libm) a b n m,
  dot L (gshift4 m a) (gshift4 n b) = dot L a b /\
  mag (wedge L (gshift4 m a) (gshift4 n b)) = mag (wedge L a b) /\
  distance_to L (gshift4 m a) (gshift4 n b) = distance_to L a b /\
  is_orthogonal L (gshift4 m a) (gshift4 n b) = is_orthogonal L a b /\
  aproject L (shift4 m (ang a)) (shift4 n (ang b)) = aproject L (ang a) (ang b) /\
  mag (gproject L (gshift4 m a) (gshift4 n b)) = mag (gproject L a b) /\
  project_to_angle L (gshift4 m a) (shift4 n (ang b)) = project_to_angle L a (ang b).
Print Assumptions C08_measurements.
Check C08_cone : forall (L : libm) d h g n m, cone_pred L (gshift4 n d) h (gshift4 m g) = cone_pred L d h g.
Print Assumptions C08_cone.
Check C08_trig : forall (L : libm) a n, gcos L (shift4 n a) = gcos L a /\ gsin L (shift4 n a) = gsin L a.
Print Assumptions C08_trig.
Check C08_result_blades : forall a b n m,
  rem (geometric_add (shift4 n a) (shift4 m b)) = rem (geometric_add a b) /\
  blade (geometric_add (shift4 n a) (shift4 m b)) = blade (geometric_add a b) + 4 * (n + m).
Print Assumptions C08_result_blades.
Check C08_result_values : forall (L : libm) a b n m,
  gmul_vv (gshift4 m a) (gshift4 n b) = gshift4 (m + n) (gmul_vv a b) /\
  wedge L (gshift4 m a) (gshift4 n b) = gshift4 (m + n) (wedge L a b) /\
  meet L (gshift4 m a) (gshift4 n b) = gshift4 (m + n) (meet L a b) /\
  gdual (gshift4 m a) = gshift4 m (gdual a) /\
  grotate (gshift4 m a) (shift4 n (ang b)) = gshift4 (m + n) (grotate a (ang b)).
Print Assumptions C08_result_values.
Check C08_project_result : forall (L : libm) a b n m, flt (fabs (mag b)) EPSILON = false ->
  gproject L (gshift4 m a) (gshift4 n b) = gshift4 n (gproject L a b).
Print Assumptions C08_project_result.
Check C08_shift_def : forall n a g, shift4 n a = {| rem := rem a; blade := blade a + 4 * n |} /\
  gshift4 n g = {| mag := mag g; ang := shift4 n (ang g) |}.
Print Assumptions C08_shift_def.
Check C08_direction_shift : forall n a, dir (shift4 n a) = dir a.
Print Assumptions C08_direction_shift.
Check C08_sum_cartesian : forall (L : libm) (u u2 : R) a b m n, cos_acc L u -> sin_acc L u -> atan2_acc L u2 -> (u <= / 1000)%R ->
  let a' := gshift4 m a in let b' := gshift4 n b in
  canonp (rem (ang a)) -> canonp (rem (ang b)) ->
  aeqb (ang a') (ang b') = false ->
  aeqb (add_vv (ang a') (new one one)) (ang b') || aeqb (add_vv (ang b') (new one one)) (ang a') = false ->
  (0 <= blade (ang a') + blade (ang b') < 2 ^ 40)%Z ->
  fin (gadd_rad L a' b') ->
  fin (fadd (fmul (mag a') (sinF L (grade_angle (ang a')))) (fmul (mag b') (sinF L (grade_angle (ang b'))))) ->
  fin (fadd (fmul (mag a') (cosF L (grade_angle (ang a')))) (fmul (mag b') (cosF L (grade_angle (ang b'))))) ->
  let r := gadd_vv L a' b' in
  (let Vx := R_ (mag a) * cos (dir (ang a)) + R_ (mag b) * cos (dir (ang b)) in
  let Vy := R_ (mag a) * sin (dir (ang a)) + R_ (mag b) * sin (dir (ang b)) in
  let M := Rabs (R_ (mag a)) + Rabs (R_ (mag b)) in
  let E := M * (u + 3 / 1000000000000000) + 4 * bpow radix2 (-1075) in
  let S := R_ (mag a) * R_ (mag a) + R_ (mag b) * R_ (mag b) in
  let Bnd := S * (u + 1 / 100000000000000) + 10 * bpow radix2 (-1075) in
  let tolN := R_ eps10 + 3 / 100000000000000 + IZR (blade (ang a') + blade (ang b')) * (4 / 1000000000000000) in
  let T := sqrt Bnd * (1 + / 9007199254740992) + / 9007199254740992 * sqrt (Vx * Vx + Vy * Vy) + bpow radix2 (-1075)
           + 3 * E + (M + 2 * E) * (u2 + tolN) in
  Rabs (R_ (mag r) * cos (dirR (ang r)) - Vx) <= T /\ Rabs (R_ (mag r) * sin (dirR (ang r)) - Vy) <= T)%R.
Print Assumptions C08_sum_cartesian.
