From Coq Require Import ZArith List Bool Reals Lra.
From Flocq Require Import Core BinarySingleNaN.
Require Import GV.FloatBase GV.FloatLemmas GV.AngleM GV.AngleProofs GV.GeonumM GV.GeonumProofs GV.CollM GV.ShiftProofs.
Open Scope Z_scope.
Require Import GV.Properties.C08.
Check C08_sub_shift : forall a b a' b',
  rem a' = rem a -> rem b' = rem b -> (blade a' - blade b') mod 4 = (blade a - blade b) mod 4 ->
  rem (geometric_sub a' b') = rem (geometric_sub a b) /\ grade (geometric_sub a' b') = grade (geometric_sub a b).
Print Assumptions C08_sub_shift.
Check C08_measurements : forall (L : libm) a b n m,
  dot L (gshift4 m a) (gshift4 n b) = dot L a b /\
  mag (wedge L (gshift4 m a) (gshift4 n b)) = mag (wedge L a b) /\
  distance_to L (gshift4 m a) (gshift4 n b) = distance_to L a b /\
  is_orthogonal L (gshift4 m a) (gshift4 n b) = is_orthogonal L a b /\
  aproject L (shift4 m (ang a)) (shift4 n (ang b)) = aproject L (ang a) (ang b) /\
  mag (gproject L (gshift4 m a) (gshift4 n b)) = mag (gproject L a b) /\
  project_to_angle L (gshift4 m a) (shift4 n (ang b)) = project_to_angle L a (ang b).
Print Assumptions C08_measurements.
Check C08_cone : forall (L : libm) d h g n m, cone_pred L (gshift4 n d) h (gshift4 m g) = cone_pred L d h g.
Print Assumptions C08_cone.
Check C08_trig : forall (L : libm) a n, gcos L (shift4 n a) = gcos L a /\ gsin L (shift4 n a) = gsin L a.
Print Assumptions C08_trig.
Check C08_result_blades : forall a b n m,
  rem (geometric_add (shift4 n a) (shift4 m b)) = rem (geometric_add a b) /\
  blade (geometric_add (shift4 n a) (shift4 m b)) = blade (geometric_add a b) + 4 * (n + m).
Print Assumptions C08_result_blades.
