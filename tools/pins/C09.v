From Coq Require Import ZArith List Bool Reals Lra.
From Flocq Require Import Core BinarySingleNaN.
Require Import GV.FloatBase GV.FloatLemmas GV.AngleM GV.AngleProofs GV.GeonumM GV.GeonumProofs GV.TraitsM GV.NewProofs GV.CtorProofs GV.ClosureProofs GV.TraitsProofs GV.BoundProofs GV.PiBounds GV.TrigProofs GV.DotValue GV.DistValue GV.DirProofs GV.SymProofs.
Open Scope R_scope.
Require Import GV.Properties.C09.
Check C09_encoding : forall (L : libm) a b, fin (dot_value L a b) ->
  dot L a b = {| mag := fabs (dot_value L a b);
                 ang := {| rem := zero; blade := if Rlt_bool (R_ (dot_value L a b)) 0 then 2 else 0 |} |}.
Print Assumptions C09_encoding.
Check C09_value_def : forall (L : libm) a b,
  dot_value L a b = fmul (fmul (mag a) (mag b)) (cosF L (grade_angle (geometric_sub (ang b) (ang a)))).
Print Assumptions C09_value_def.
Check C09_orthogonal : forall (L : libm) a b, is_orthogonal L a b = flt (fabs (mag (dot L a b))) EPSILON.
Print Assumptions C09_orthogonal.
Check C09_diff_canon : forall a b, canonp (rem (ang a)) -> canonp (rem (ang b)) ->
  canonp (rem (geometric_sub (ang b) (ang a))) /\ (0 <= blade (geometric_sub (ang b) (ang a)))%Z.
Print Assumptions C09_diff_canon.
Check C09_self : forall (L : libm) a, cos_zero_one L -> fin (rem (ang a)) -> fin (fmul (mag a) (mag a)) ->
  dot L a a = {| mag := fmul (mag a) (mag a); ang := {| rem := zero; blade := 0 |} |}.
Print Assumptions C09_self.
Check C09_bound : forall (L : libm) a b, cos_range L -> fin (fmul (mag a) (mag b)) ->
  Rabs (R_ (fmul (mag a) (mag b))) <= bpow radix2 1000 ->
  fin (dot_value L a b) /\ R_ (mag (dot L a b)) <= Rabs (R_ (fmul (mag a) (mag b))).
Print Assumptions C09_bound.
Check C09_cos_value : forall (L : libm) (u : R) a b, cos_acc L u ->
  canonp (rem a) -> canonp (rem b) -> (0 <= blade a)%Z -> (0 <= blade b)%Z ->
  let c := cosF L (grade_angle (geometric_sub b a)) in
  fin c /\ Rabs (R_ c - cos (dir b - dir a)) <= u + 10001 / 100000000000000.
Print Assumptions C09_cos_value.
Check C09_value : forall (L : libm) (u : R) a b, cos_acc L u -> u <= / 1000 ->
  canonp (rem (ang a)) -> canonp (rem (ang b)) -> (0 <= blade (ang a))%Z -> (0 <= blade (ang b))%Z ->
  fin (dot_value L a b) ->
  Rabs (R_ (dot_value L a b) - R_ (mag a) * R_ (mag b) * cos (dir (ang b) - dir (ang a)))
    <= Rabs (R_ (mag a) * R_ (mag b)) * (u + 10002 / 100000000000000) + bpow radix2 (-1073).
Print Assumptions C09_value.
Check C09_orthogonal_value : forall (L : libm) (u : R) a b, cos_acc L u -> u <= / 1000 ->
  canonp (rem (ang a)) -> canonp (rem (ang b)) -> (0 <= blade (ang a))%Z -> (0 <= blade (ang b))%Z ->
  fin (dot_value L a b) -> is_orthogonal L a b = true ->
  Rabs (R_ (mag a) * R_ (mag b) * cos (dir (ang b) - dir (ang a)))
    < R_ EPSILON + Rabs (R_ (mag a) * R_ (mag b)) * (u + 10002 / 100000000000000) + bpow radix2 (-1073).
Print Assumptions C09_orthogonal_value.
Check C09_value_hyps_inhabited : cos_acc ideal_libm (/ 4503599627370496) /\ sin_acc ideal_libm (/ 4503599627370496) /\ / 4503599627370496 <= / 1000.
Print Assumptions C09_value_hyps_inhabited.
Check C09_symmetry : forall (L : libm) (u : R) a b, cos_acc L u -> u <= / 1000 ->
  canonp (rem (ang a)) -> canonp (rem (ang b)) -> (0 <= blade (ang a))%Z -> (0 <= blade (ang b))%Z ->
  fin (dot_value L a b) -> fin (dot_value L b a) ->
  Rabs (R_ (dot_value L a b) - R_ (dot_value L b a))
    <= 2 * (Rabs (R_ (mag a) * R_ (mag b)) * (u + 10002 / 100000000000000) + bpow radix2 (-1073)).
Print Assumptions C09_symmetry.
