From Coq Require Import ZArith List Bool Reals Lra.
From Flocq Require Import Core BinarySingleNaN.
Require Import GV.FloatBase GV.FloatLemmas GV.AngleM GV.AngleProofs GV.GeonumM GV.GeonumProofs GV.TraitsM GV.NewProofs GV.CtorProofs GV.ClosureProofs GV.PiBounds GV.TrigProofs GV.DotValue GV.DistValue GV.DirProofs GV.SymProofs GV.SwapProofs GV.CommProofs.
Open Scope R_scope.
Require Import GV.Properties.C10.
Check C10_wedge : forall (L : libm) a b,
  let sv := sinF L (grade_angle (sub_vv (ang b) (ang a))) in
  mag (wedge L a b) = fmul (fmul (mag a) (mag b)) (fabs sv) /\
  ang (wedge L a b) =
    let a0 := add_vv (add_vv (ang a) (ang b)) (new one two) in
    if flt sv zero then add_vv a0 (new one one) else a0.
Print Assumptions C10_wedge.
Check C10_geo : forall (L : libm) a b, geo L a b = gadd_vv L (dot L a b) (wedge L a b).
Print Assumptions C10_geo.
Check C10_meet : forall (L : libm) a b, meet L a b = gdual (wedge L (gdual a) (gdual b)).
Print Assumptions C10_meet.
Check C10_wedge_blades : forall (L : libm) a b, canonp (rem (ang a)) -> canonp (rem (ang b)) ->
  canonp (rem (ang (wedge L a b))) /\
  (blade (ang a) + blade (ang b) + 1 <= blade (ang (wedge L a b)) <= blade (ang a) + blade (ang b) + 4)%Z.
Print Assumptions C10_wedge_blades.
Check C10_parallel : forall (L : libm) a b, sin_zero_zero L -> fin (rem (ang a)) -> ang b = ang a ->
  fin (fmul (mag a) (mag b)) -> R_ (mag (wedge L a b)) = 0.
Print Assumptions C10_parallel.
Check C10_special_hyps_inhabited : cos_zero_one trivial_libm /\ sin_zero_zero trivial_libm.
Print Assumptions C10_special_hyps_inhabited.
Check C10_wedge_value : forall (L : libm) (u : R) a b, sin_acc L u -> u <= / 1000 ->
  canonp (rem (ang a)) -> canonp (rem (ang b)) -> (0 <= blade (ang a))%Z -> (0 <= blade (ang b))%Z ->
  fin (mag (wedge L a b)) ->
  Rabs (R_ (mag (wedge L a b)) - R_ (mag a) * R_ (mag b) * Rabs (sin (dir (ang b) - dir (ang a))))
    <= Rabs (R_ (mag a) * R_ (mag b)) * (u + 10002 / 100000000000000) + bpow radix2 (-1073).
Print Assumptions C10_wedge_value.
Check C10_sin_value : forall (L : libm) (u : R) a b, sin_acc L u ->
  canonp (rem a) -> canonp (rem b) -> (0 <= blade a)%Z -> (0 <= blade b)%Z ->
  let s := sinF L (grade_angle (geometric_sub b a)) in
  fin s /\ Rabs (R_ s - sin (dir b - dir a)) <= u + 10001 / 100000000000000.
Print Assumptions C10_sin_value.
Check C10_swap_magnitude : forall (L : libm) (u : R) a b, sin_acc L u -> u <= / 1000 ->
  canonp (rem (ang a)) -> canonp (rem (ang b)) -> (0 <= blade (ang a))%Z -> (0 <= blade (ang b))%Z ->
  fin (mag (wedge L a b)) -> fin (mag (wedge L b a)) ->
  Rabs (R_ (mag (wedge L a b)) - R_ (mag (wedge L b a)))
    <= 2 * (Rabs (R_ (mag a) * R_ (mag b)) * (u + 10002 / 100000000000000) + bpow radix2 (-1073)).
Print Assumptions C10_swap_magnitude.
Check C10_swap_orientation : forall (L : libm) (u : R) a b, sin_acc L u ->
  canonp (rem (ang a)) -> canonp (rem (ang b)) -> (0 <= blade (ang a))%Z -> (0 <= blade (ang b))%Z ->
  u + 10001 / 100000000000000 < Rabs (sin (dir (ang b) - dir (ang a))) ->
  steps_to (ang (wedge L a b)) (ang (wedge L b a)) 2 \/ steps_to (ang (wedge L b a)) (ang (wedge L a b)) 2.
Print Assumptions C10_swap_orientation.
Check C10_lagrange : forall (L : libm) (u : R) a b, cos_acc L u -> sin_acc L u -> u <= / 1000 ->
  canonp (rem (ang a)) -> canonp (rem (ang b)) -> (0 <= blade (ang a))%Z -> (0 <= blade (ang b))%Z ->
  fin (dot_value L a b) -> fin (mag (wedge L a b)) ->
  let P := R_ (mag a) * R_ (mag b) in
  let e := Rabs P * (u + 10002 / 100000000000000) + bpow radix2 (-1073) in
  Rabs (R_ (dot_value L a b) * R_ (dot_value L a b) + R_ (mag (wedge L a b)) * R_ (mag (wedge L a b)) - P * P)
    <= 2 * e * (2 * Rabs P + e).
Print Assumptions C10_lagrange.
