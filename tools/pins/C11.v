From Coq Require Import ZArith List Bool Reals Lra.
From Flocq Require Import Core BinarySingleNaN.
Require Import GV.FloatBase GV.FloatLemmas GV.AngleM GV.AngleProofs GV.GeonumM GV.GeonumProofs GV.TraitsM GV.NewProofs GV.CtorProofs GV.PiBounds GV.TrigProofs GV.DotValue GV.ClosureProofs GV.SumUpper GV.DistValue GV.DirProofs GV.SumDir GV.DecompProofs GV.SubCart GV.Recompose.
Open Scope R_scope.
Require Import GV.Properties.C11.
Check C11_project_structure : forall (L : libm) g onto,
  (flt (fabs (mag onto)) EPSILON = true ->
     gproject L g onto = {| mag := zero; ang := new_with_blade (blade (ang g)) zero one |}) /\
  (flt (fabs (mag onto)) EPSILON = false ->
     let pf := aproject L (ang g) (ang onto) in
     gproject L g onto =
       {| mag := fmul (mag g) (fabs pf);
          ang := if fge pf zero then ang onto else add_vv (ang onto) (new one one) |}).
Print Assumptions C11_project_structure.
Check C11_length_free : forall (L : libm) g o1 o2, ang o1 = ang o2 ->
  flt (fabs (mag o1)) EPSILON = false -> flt (fabs (mag o2)) EPSILON = false ->
  gproject L g o1 = gproject L g o2.
Print Assumptions C11_length_free.
Check C11_half_turn : forall a, canonp (rem a) -> steps_to a (add_vv a (new one one)) 2.
Print Assumptions C11_half_turn.
Check C11_reject_def : forall (L : libm) a b, reject L a b = gsub_vv L a (gproject L a b).
Print Assumptions C11_reject_def.
Check C11_to_angle : forall (L : libm) g onto,
  let c := cosF L (grade_angle (sub_vv onto (ang g))) in
  project_to_angle L g onto =
    if fge c zero then {| mag := fmul (mag g) c; ang := {| rem := zero; blade := 0 |} |}
    else {| mag := fmul (mag g) (fneg c); ang := {| rem := zero; blade := 2 |} |}.
Print Assumptions C11_to_angle.
Check C11_angle_project : forall (L : libm) a onto,
  aproject L a onto = cosF L (grade_angle (geometric_sub onto a)) /\
  (forall g k, project_to_dimension L g k = fmul (mag g) (aproject L (ang g) (new_with_blade k zero one))).
Print Assumptions C11_angle_project.
Check C11_project_value : forall (L : libm) (u : R) a onto, cos_acc L u ->
  canonp (rem a) -> canonp (rem onto) -> (0 <= blade a)%Z -> (0 <= blade onto)%Z ->
  fin (aproject L a onto) /\ Rabs (R_ (aproject L a onto) - cos (dir onto - dir a)) <= u + 10001 / 100000000000000.
Print Assumptions C11_project_value.
Check C11_length_value : forall (L : libm) (u : R) g onto, cos_acc L u -> u <= / 1000 ->
  canonp (rem (ang g)) -> canonp (rem (ang onto)) -> (0 <= blade (ang g))%Z -> (0 <= blade (ang onto))%Z ->
  flt (fabs (mag onto)) EPSILON = false -> fin (mag (gproject L g onto)) ->
  Rabs (R_ (mag (gproject L g onto)) - R_ (mag g) * Rabs (cos (dir (ang onto) - dir (ang g))))
    <= Rabs (R_ (mag g)) * (u + 10002 / 100000000000000) + bpow radix2 (-1075).
Print Assumptions C11_length_value.
Check C11_to_angle_value : forall (L : libm) (u : R) g onto, cos_acc L u -> u <= / 1000 ->
  canonp (rem (ang g)) -> canonp (rem onto) -> (0 <= blade (ang g))%Z -> (0 <= blade onto)%Z ->
  fin (mag (project_to_angle L g onto)) ->
  Rabs (R_ (mag (project_to_angle L g onto)) - R_ (mag g) * Rabs (cos (dir onto - dir (ang g))))
    <= Rabs (R_ (mag g)) * (u + 10002 / 100000000000000) + bpow radix2 (-1075).
Print Assumptions C11_to_angle_value.
Check C11_project_signed : forall (L : libm) (u : R) g onto, cos_acc L u -> u <= / 1000 -> 0 <= R_ (mag g) ->
  canonp (rem (ang g)) -> canonp (rem (ang onto)) -> (0 <= blade (ang g))%Z -> (0 <= blade (ang onto))%Z ->
  flt (fabs (mag onto)) EPSILON = false -> fin (mag (gproject L g onto)) ->
  let p := gproject L g onto in
  let w := u + 10002 / 100000000000000 in
  canonp (rem (ang p)) /\ (0 <= blade (ang p))%Z /\
  exists sg : R, (sg = 1 \/ sg = -1) /\
    cos (dirR (ang p)) = sg * cos (dir (ang onto)) /\ sin (dirR (ang p)) = sg * sin (dir (ang onto)) /\
    Rabs (R_ (mag g) * cos (dir (ang onto) - dir (ang g)) - sg * R_ (mag p)) <= 3 * R_ (mag g) * w + bpow radix2 (-1075).
Print Assumptions C11_project_signed.
Check C11_reject_orthogonal : forall (L : libm) (u u2 : R) g onto,
  cos_acc L u -> sin_acc L u -> atan2_acc L u2 -> u <= / 1000 -> 0 <= R_ (mag g) ->
  canonp (rem (ang g)) -> canonp (rem (ang onto)) -> (0 <= blade (ang g))%Z -> (0 <= blade (ang onto))%Z ->
  flt (fabs (mag onto)) EPSILON = false -> fin (mag (gproject L g onto)) ->
  let np := gnegate (gproject L g onto) in
  aeqb (ang g) (ang np) = false ->
  aeqb (add_vv (ang g) (new one one)) (ang np) || aeqb (add_vv (ang np) (new one one)) (ang g) = false ->
  (0 <= blade (ang g) + blade (ang np) < 2 ^ 40)%Z ->
  fin (gadd_rad L g np) ->
  fin (fadd (fmul (mag g) (sinF L (grade_angle (ang g)))) (fmul (mag np) (sinF L (grade_angle (ang np))))) ->
  fin (fadd (fmul (mag g) (cosF L (grade_angle (ang g)))) (fmul (mag np) (cosF L (grade_angle (ang np))))) ->
  let r := reject L g onto in
  let M := Rabs (R_ (mag g)) + Rabs (R_ (mag np)) in
  let E := M * (u + 3 / 1000000000000000) + 4 * bpow radix2 (-1075) in
  let S := R_ (mag g) * R_ (mag g) + R_ (mag np) * R_ (mag np) in
  let Bnd := S * (u + 1 / 100000000000000) + 10 * bpow radix2 (-1075) in
  let tolN := R_ eps10 + 3 / 100000000000000 + IZR (blade (ang g) + blade (ang np)) * (4 / 1000000000000000) in
  let Vx := R_ (mag g) * cos (dir (ang g)) + R_ (mag np) * cos (dir (ang np)) in
  let Vy := R_ (mag g) * sin (dir (ang g)) + R_ (mag np) * sin (dir (ang np)) in
  let T := sqrt Bnd * (1 + / 9007199254740992) + / 9007199254740992 * sqrt (Vx * Vx + Vy * Vy) + bpow radix2 (-1075)
           + 3 * E + (M + 2 * E) * (u2 + tolN) in
  Rabs (R_ (mag r) * (cos (dirR (ang r)) * cos (dir (ang onto)) + sin (dirR (ang r)) * sin (dir (ang onto))))
    <= 2 * T + 3 * R_ (mag g) * (u + 10002 / 100000000000000) + bpow radix2 (-1075).
Print Assumptions C11_reject_orthogonal.
Check C11_recompose : forall (L : libm) (u u2 : R) g onto, cos_acc L u -> sin_acc L u -> atan2_acc L u2 -> u <= / 1000 ->
  let p := gproject L g onto in
  canonp (rem (ang g)) -> canonp (rem (ang p)) -> (0 <= blade (ang p))%Z ->
  let np := gnegate p in
  aeqb (ang g) (ang np) = false ->
  aeqb (add_vv (ang g) (new one one)) (ang np) || aeqb (add_vv (ang np) (new one one)) (ang g) = false ->
  (0 <= blade (ang g) + blade (ang np) < 2 ^ 40)%Z ->
  fin (gadd_rad L g np) ->
  fin (fadd (fmul (mag g) (sinF L (grade_angle (ang g)))) (fmul (mag np) (sinF L (grade_angle (ang np))))) ->
  fin (fadd (fmul (mag g) (cosF L (grade_angle (ang g)))) (fmul (mag np) (cosF L (grade_angle (ang np))))) ->
  let r := reject L g onto in
  let Wx := R_ (mag g) * cos (dir (ang g)) - R_ (mag p) * cos (dir (ang p)) in
  let Wy := R_ (mag g) * sin (dir (ang g)) - R_ (mag p) * sin (dir (ang p)) in
  let M := Rabs (R_ (mag g)) + Rabs (R_ (mag p)) in
  let E := M * (u + 3 / 1000000000000000) + 4 * bpow radix2 (-1075) in
  let S := R_ (mag g) * R_ (mag g) + R_ (mag p) * R_ (mag p) in
  let Bnd := S * (u + 1 / 100000000000000) + 10 * bpow radix2 (-1075) in
  let tolN := R_ eps10 + 3 / 100000000000000 + IZR (blade (ang g) + blade (ang np)) * (4 / 1000000000000000) in
  let T := sqrt Bnd * (1 + / 9007199254740992) + / 9007199254740992 * sqrt (Wx * Wx + Wy * Wy) + bpow radix2 (-1075)
           + 3 * E + (M + 2 * E) * (u2 + tolN) in
  Rabs ((R_ (mag r) * cos (dirR (ang r)) + R_ (mag p) * cos (dir (ang p))) - R_ (mag g) * cos (dir (ang g))) <= T /\
  Rabs ((R_ (mag r) * sin (dirR (ang r)) + R_ (mag p) * sin (dir (ang p))) - R_ (mag g) * sin (dir (ang g))) <= T.
Print Assumptions C11_recompose.
