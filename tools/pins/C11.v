From Coq Require Import ZArith List Bool Reals Lra.
From Flocq Require Import Core BinarySingleNaN.
Require Import GV.FloatBase GV.FloatLemmas GV.AngleM GV.AngleProofs GV.GeonumM GV.GeonumProofs GV.TraitsM GV.NewProofs GV.CtorProofs GV.PiBounds GV.TrigProofs GV.DotValue.
Open Scope R_scope.
Require Import GV.Properties.C11.
Check C11_project_structure : forall (L : libm) g onto,
  (flt (fabs (mag onto)) EPSILON = true ->
     gproject L g onto = {| mag := zero; ang := new_with_blade (blade (ang g)) zero one |}) /\
  (flt (fabs (mag onto)) EPSILON = false ->
     let pf := aproject L (ang g) (ang onto) in
     gproject L g onto =
       {| mag := fmul (mag g) (fabs pf);
          ang := if fge pf zero then ang onto else add_vv (ang onto) (new one one) |}).
Print Assumptions C11_project_structure.
Check C11_length_free : forall (L : libm) g o1 o2, ang o1 = ang o2 ->
  flt (fabs (mag o1)) EPSILON = false -> flt (fabs (mag o2)) EPSILON = false ->
  gproject L g o1 = gproject L g o2.
Print Assumptions C11_length_free.
Check C11_half_turn : forall a, canonp (rem a) -> steps_to a (add_vv a (new one one)) 2.
Print Assumptions C11_half_turn.
Check C11_reject_def : forall (L : libm) a b, reject L a b = gsub_vv L a (gproject L a b).
Print Assumptions C11_reject_def.
Check C11_to_angle : forall (L : libm) g onto,
  let c := cosF L (grade_angle (sub_vv onto (ang g))) in
  project_to_angle L g onto =
    if fge c zero then {| mag := fmul (mag g) c; ang := {| rem := zero; blade := 0 |} |}
    else {| mag := fmul (mag g) (fneg c); ang := {| rem := zero; blade := 2 |} |}.
Print Assumptions C11_to_angle.
Check C11_angle_project : forall (L : libm) a onto,
  aproject L a onto = cosF L (grade_angle (geometric_sub onto a)) /\
  (forall g k, project_to_dimension L g k = fmul (mag g) (aproject L (ang g) (new_with_blade k zero one))).
Print Assumptions C11_angle_project.
Check C11_project_value : forall (L : libm) (u : R) a onto, cos_acc L u ->
  canonp (rem a) -> canonp (rem onto) -> (0 <= blade a)%Z -> (0 <= blade onto)%Z ->
  fin (aproject L a onto) /\ Rabs (R_ (aproject L a onto) - cos (dir onto - dir a)) <= u + 10001 / 100000000000000.
Print Assumptions C11_project_value.
Check C11_length_value : forall (L : libm) (u : R) g onto, cos_acc L u -> u <= / 1000 ->
  canonp (rem (ang g)) -> canonp (rem (ang onto)) -> (0 <= blade (ang g))%Z -> (0 <= blade (ang onto))%Z ->
  flt (fabs (mag onto)) EPSILON = false -> fin (mag (gproject L g onto)) ->
  Rabs (R_ (mag (gproject L g onto)) - R_ (mag g) * Rabs (cos (dir (ang onto) - dir (ang g))))
    <= Rabs (R_ (mag g)) * (u + 10002 / 100000000000000) + bpow radix2 (-1075).
Print Assumptions C11_length_value.
Check C11_to_angle_value : forall (L : libm) (u : R) g onto, cos_acc L u -> u <= / 1000 ->
  canonp (rem (ang g)) -> canonp (rem onto) -> (0 <= blade (ang g))%Z -> (0 <= blade onto)%Z ->
  fin (mag (project_to_angle L g onto)) ->
  Rabs (R_ (mag (project_to_angle L g onto)) - R_ (mag g) * Rabs (cos (dir onto - dir (ang g))))
    <= Rabs (R_ (mag g)) * (u + 10002 / 100000000000000) + bpow radix2 (-1075).
Print Assumptions C11_to_angle_value.
