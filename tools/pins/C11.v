From Coq Require Import ZArith List Bool Reals Lra.
From Flocq Require Import Core BinarySingleNaN.
Require Import GV.FloatBase GV.FloatLemmas GV.AngleM GV.AngleProofs GV.GeonumM GV.GeonumProofs GV.TraitsM.
Open Scope R_scope.
Require Import GV.Properties.C11.
Check C11_project_structure : forall (L : libm) g onto,
  (flt (fabs (mag onto)) EPSILON = true ->
     gproject L g onto = {| mag := zero; ang := new_with_blade (blade (ang g)) zero one |}) /\
  (flt (fabs (mag onto)) EPSILON = false ->
     let pf := aproject L (ang g) (ang onto) in
     gproject L g onto =
       {| mag := fmul (mag g) (fabs pf);
          ang := if fge pf zero then ang onto else add_vv (ang onto) (new one one) |}).
Print Assumptions C11_project_structure.
Check C11_length_free : forall (L : libm) g o1 o2, ang o1 = ang o2 ->
  flt (fabs (mag o1)) EPSILON = false -> flt (fabs (mag o2)) EPSILON = false ->
  gproject L g o1 = gproject L g o2.
Print Assumptions C11_length_free.
Check C11_half_turn : forall a, canonp (rem a) -> steps_to a (add_vv a (new one one)) 2.
Print Assumptions C11_half_turn.
Check C11_reject_def : forall (L : libm) a b, reject L a b = gsub_vv L a (gproject L a b).
Print Assumptions C11_reject_def.
Check C11_to_angle : forall (L : libm) g onto,
  let c := cosF L (grade_angle (sub_vv onto (ang g))) in
  project_to_angle L g onto =
    if fge c zero then {| mag := fmul (mag g) c; ang := {| rem := zero; blade := 0 |} |}
    else {| mag := fmul (mag g) (fneg c); ang := {| rem := zero; blade := 2 |} |}.
Print Assumptions C11_to_angle.
Check C11_angle_project : forall (L : libm) a onto,
  aproject L a onto = cosF L (grade_angle (geometric_sub onto a)) /\
  (forall g k, project_to_dimension L g k = fmul (mag g) (aproject L (ang g) (new_with_blade k zero one))).
Print Assumptions C11_angle_project.
