From Coq Require Import ZArith List Bool Reals Lra.
From Flocq Require Import Core BinarySingleNaN.
Require Import GV.FloatBase GV.FloatLemmas GV.AngleM GV.AngleProofs GV.GeonumM GV.GeonumProofs GV.TraitsM GV.NewProofs GV.CtorProofs GV.PiBounds GV.TrigProofs GV.DotValue GV.DirProofs GV.DistValue GV.SymProofs.
Open Scope R_scope.
Require Import GV.Properties.C12.
Check C12_rotate : forall g r, mag (grotate g r) = mag g /\ ang (grotate g r) = geometric_add (ang g) r.
Print Assumptions C12_rotate.
Check C12_rotate_total : forall g r, canonp (rem (ang g)) -> canonp (rem r) ->
  canonp (rem (ang (grotate g r))) /\
  Rabs (theta (ang (grotate g r)) - (theta (ang g) + theta r)) <= R_ eps10 + / 2251799813685248.
Print Assumptions C12_rotate_total.
Check C12_full_turn : forall g, canonp (rem (ang g)) ->
  steps_to (ang g) (ang (grotate g {| rem := zero; blade := 4 |})) 4.
Print Assumptions C12_full_turn.
Check C12_reflect : forall g axis, canonp (rem (ang g)) -> Canon (ang axis) ->
  mag (reflect g axis) = mag g /\ canonp (rem (ang (reflect g axis))) /\
  (2 * blade (ang axis) <= blade (ang (reflect g axis)))%Z.
Print Assumptions C12_reflect.
Check C12_reflect_length_free : forall g a1 a2, ang a1 = ang a2 -> reflect g a1 = reflect g a2.
Print Assumptions C12_reflect_length_free.
Check C12_scale_rotate : forall g f r,
  scale_rotate g f r =
    if flt f zero then {| mag := fmul (mag g) (fabs f); ang := add_vv (negate (ang g)) r |}
    else {| mag := fmul (mag g) f; ang := add_vv (ang g) r |}.
Print Assumptions C12_scale_rotate.
Check C12_reflect_law : forall g axis, canonp (rem (ang g)) -> Canon (ang axis) ->
  Rabs (theta (ang (reflect g axis)) - (2 * theta (ang axis) + 8 * R_ Q - theta (base_angle (ang g))))
    <= 3 * R_ eps10 + 7 * / 4503599627370496.
Print Assumptions C12_reflect_law.
Check C12_rotate_direction : forall g r, canonp (rem (ang g)) -> canonp (rem r) ->
  mag (grotate g r) = mag g /\
  Rabs (dirR (ang (grotate g r)) - (dirR (ang g) + dirR r)) <= R_ eps10 + / 2251799813685248 + 1 / 10000000000000000.
Print Assumptions C12_rotate_direction.
Check C12_reflect_direction : forall g axis, canonp (rem (ang g)) -> Canon (ang axis) -> (0 <= blade (ang g))%Z ->
  Rabs (dirR (ang (reflect g axis)) - (2 * dirR (ang axis) - dir (ang g) + 4 * Rtrigo1.PI))
    <= 3 * R_ eps10 + 7 * / 4503599627370496 + 3 / 10000000000000000.
Print Assumptions C12_reflect_direction.
Check C12_double_reflection : forall g axis, Canon (ang g) -> Canon (ang axis) ->
  let r1 := reflect g axis in let r2 := reflect r1 axis in
  mag r2 = mag g /\
  Rabs (cos (dirR (ang r2)) - cos (dir (ang g))) <= 2 * (3 * R_ eps10 + 7 * / 4503599627370496 + 3 / 10000000000000000) /\
  Rabs (sin (dirR (ang r2)) - sin (dir (ang g))) <= 2 * (3 * R_ eps10 + 7 * / 4503599627370496 + 3 / 10000000000000000).
Print Assumptions C12_double_reflection.
