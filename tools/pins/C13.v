From Coq Require Import ZArith List Bool Reals Lra.
From Flocq Require Import Core BinarySingleNaN.
Require Import GV.FloatBase GV.FloatLemmas GV.AngleM GV.AngleProofs GV.GeonumM GV.GeonumProofs GV.TraitsM GV.NewProofs GV.CtorProofs GV.PiBounds GV.TrigProofs GV.DotValue GV.DistValue GV.DirProofs GV.SymProofs GV.ClosureProofs GV.SumUpper GV.SumDir GV.MetricProofs.
Open Scope R_scope.
Require Import GV.Properties.C13.
Check C13_distance_encoding : forall (L : libm) a b,
  ang (distance_to L a b) = {| rem := zero; blade := 0 |} /\ nonneg_or_inf (mag (distance_to L a b)).
Print Assumptions C13_distance_encoding.
Check C13_mag_diff : forall a b, mag_diff a b = fabs (fsub (mag a) (mag b)).
Print Assumptions C13_mag_diff.
Check C13_invert_panic : forall (L : libm) g c r,
  invert_circle L g c r = None <-> feq (mag (gsub_vv L g c)) zero = true.
Print Assumptions C13_invert_panic.
Check C13_radicand_value : forall (L : libm) (u : R) a b, cos_acc L u -> u <= / 1000 ->
  canonp (rem (ang a)) -> canonp (rem (ang b)) -> (0 <= blade (ang a))%Z -> (0 <= blade (ang b))%Z ->
  fin (dist_sq L a b) ->
  let S := R_ (mag a) * R_ (mag a) + R_ (mag b) * R_ (mag b) in
  let D := S - 2 * R_ (mag a) * R_ (mag b) * cos (dir (ang b) - dir (ang a)) in
  0 <= D /\ Rabs (R_ (dist_sq L a b) - D) <= S * (u + 10003 / 100000000000000) + 10 * bpow radix2 (-1075).
Print Assumptions C13_radicand_value.
Check C13_distance_value : forall (L : libm) (u : R) a b, cos_acc L u -> u <= / 1000 ->
  canonp (rem (ang a)) -> canonp (rem (ang b)) -> (0 <= blade (ang a))%Z -> (0 <= blade (ang b))%Z ->
  fin (dist_sq L a b) ->
  let S := R_ (mag a) * R_ (mag a) + R_ (mag b) * R_ (mag b) in
  let D := S - 2 * R_ (mag a) * R_ (mag b) * cos (dir (ang b) - dir (ang a)) in
  let Bnd := S * (u + 10003 / 100000000000000) + 10 * bpow radix2 (-1075) in
  Rabs (R_ (mag (distance_to L a b)) - sqrt D)
    <= sqrt Bnd * (1 + / 9007199254740992) + / 9007199254740992 * sqrt D + bpow radix2 (-1075).
Print Assumptions C13_distance_value.
Check C13_radicand_def : forall (L : libm) a b, mag (distance_to L a b) = fabs (fsqrt (fmax (dist_sq L a b) zero)).
Print Assumptions C13_radicand_def.
Check C13_symmetry : forall (L : libm) (u : R) a b, cos_acc L u -> u <= / 1000 ->
  canonp (rem (ang a)) -> canonp (rem (ang b)) -> (0 <= blade (ang a))%Z -> (0 <= blade (ang b))%Z ->
  fin (dist_sq L a b) -> fin (dist_sq L b a) ->
  let S := R_ (mag a) * R_ (mag a) + R_ (mag b) * R_ (mag b) in
  let D := S - 2 * R_ (mag a) * R_ (mag b) * cos (dir (ang b) - dir (ang a)) in
  let Bnd := S * (u + 10003 / 100000000000000) + 10 * bpow radix2 (-1075) in
  Rabs (R_ (mag (distance_to L a b)) - R_ (mag (distance_to L b a)))
    <= 2 * (sqrt Bnd * (1 + / 9007199254740992) + / 9007199254740992 * sqrt D + bpow radix2 (-1075)).
Print Assumptions C13_symmetry.
Check C13_law_of_cosines : forall a b,
  R_ (mag a) * R_ (mag a) + R_ (mag b) * R_ (mag b) - 2 * R_ (mag a) * R_ (mag b) * cos (dir (ang b) - dir (ang a))
  = (px a - px b) * (px a - px b) + (py a - py b) * (py a - py b).
Print Assumptions C13_law_of_cosines.
Check C13_distance_euclid : forall (L : libm) (u : R) a b, cos_acc L u -> u <= / 1000 ->
  canonp (rem (ang a)) -> canonp (rem (ang b)) -> (0 <= blade (ang a))%Z -> (0 <= blade (ang b))%Z ->
  fin (dist_sq L a b) ->
  let e := sqrt ((px a - px b) * (px a - px b) + (py a - py b) * (py a - py b)) in
  Rabs (R_ (mag (distance_to L a b)) - e) <= dist_tol u a b + / 9007199254740992 * e.
Print Assumptions C13_distance_euclid.
Check C13_triangle : forall (L : libm) (u : R) a b c, cos_acc L u -> u <= / 1000 ->
  canonp (rem (ang a)) -> canonp (rem (ang b)) -> canonp (rem (ang c)) ->
  (0 <= blade (ang a))%Z -> (0 <= blade (ang b))%Z -> (0 <= blade (ang c))%Z ->
  fin (dist_sq L a b) -> fin (dist_sq L b c) -> fin (dist_sq L a c) ->
  R_ (mag (distance_to L a c)) * (1 - / 9007199254740992)
    <= (R_ (mag (distance_to L a b)) + R_ (mag (distance_to L b c))) * (1 + / 4503599627370496)
       + 2 * (dist_tol u a b + dist_tol u b c + dist_tol u a c).
Print Assumptions C13_triangle.
Check C13_equals_sub : forall (L : libm) (u : R) a b, cos_acc L u -> u <= / 1000 ->
  canonp (rem (ang a)) -> canonp (rem (ang b)) -> (0 <= blade (ang a))%Z -> (0 <= blade (ang b))%Z ->
  aeqb (ang a) (negate (ang b)) = false ->
  aeqb (add_vv (ang a) (new one one)) (negate (ang b)) || aeqb (add_vv (negate (ang b)) (new one one)) (ang a) = false ->
  fin (dist_sq L a b) -> fin (gadd_rad L a (gnegate b)) ->
  let S := R_ (mag a) * R_ (mag a) + R_ (mag b) * R_ (mag b) in
  let e := sqrt ((px a - px b) * (px a - px b) + (py a - py b) * (py a - py b)) in
  let Bnd := S * (u + 10003 / 100000000000000) + 10 * bpow radix2 (-1075) in
  Rabs (R_ (mag (distance_to L a b)) - R_ (mag (gsub_vv L a b)))
    <= 2 * (sqrt Bnd * (1 + / 9007199254740992) + / 9007199254740992 * e + bpow radix2 (-1075)).
Print Assumptions C13_equals_sub.
Check C13_dist_tol_def : forall (u : R) a b, dist_tol u a b =
  sqrt ((R_ (mag a) * R_ (mag a) + R_ (mag b) * R_ (mag b)) * (u + 10003 / 100000000000000) + 10 * bpow radix2 (-1075))
    * (1 + / 9007199254740992) + bpow radix2 (-1075).
Print Assumptions C13_dist_tol_def.
