From Coq Require Import ZArith List Bool Reals Lra.
From Flocq Require Import Core BinarySingleNaN.
Require Import GV.FloatBase GV.FloatLemmas GV.AngleM GV.AngleProofs GV.GeonumM GV.GeonumProofs GV.TraitsM.
Open Scope R_scope.
Require Import GV.Properties.C13.
Check C13_distance_encoding : forall (L : libm) a b,
  ang (distance_to L a b) = {| rem := zero; blade := 0 |} /\ nonneg_or_inf (mag (distance_to L a b)).
Print Assumptions C13_distance_encoding.
Check C13_mag_diff : forall a b, mag_diff a b = fabs (fsub (mag a) (mag b)).
Print Assumptions C13_mag_diff.
Check C13_invert_panic : forall (L : libm) g c r,
  invert_circle L g c r = None <-> feq (mag (gsub_vv L g c)) zero = true.
Print Assumptions C13_invert_panic.
