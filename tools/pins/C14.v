From Coq Require Import ZArith List Bool Reals Lra.
From Flocq Require Import Core BinarySingleNaN.
Require Import GV.FloatBase GV.FloatLemmas GV.AngleM GV.AngleProofs GV.GeonumM GV.GeonumProofs GV.TraitsM GV.NewProofs GV.CtorProofs GV.ClosureProofs GV.SumUpper GV.PiBounds GV.TrigProofs GV.DotValue GV.DirProofs GV.CommProofs GV.DistValue GV.SumDir GV.GradeProofs GV.RunSum.
Import ListNotations.
Open Scope R_scope.
Require Import GV.Properties.C14.
Check C14_same : forall (L : libm) a b, aeqb (ang a) (ang b) = true ->
  ang (gadd_vv L a b) = ang a /\ mag (gadd_vv L a b) = fadd (mag a) (mag b).
Print Assumptions C14_same.
Check C14_opposite : forall (L : libm) a b, aeqb (ang a) (ang b) = false ->
  aeqb (add_vv (ang a) (new one one)) (ang b) || aeqb (add_vv (ang b) (new one one)) (ang a) = true ->
  let diff := fsub (mag a) (mag b) in
  gadd_vv L a b =
    if flt (fabs diff) EPSILON then {| mag := zero; ang := new_with_blade (blade (ang a) + blade (ang b)) zero one |}
    else if fgt diff zero then {| mag := diff; ang := ang a |} else {| mag := fneg diff; ang := ang b |}.
Print Assumptions C14_opposite.
Check C14_path_symmetric : forall a b,
  aeqb (add_vv (ang a) (new one one)) (ang b) || aeqb (add_vv (ang b) (new one one)) (ang a) =
  aeqb (add_vv (ang b) (new one one)) (ang a) || aeqb (add_vv (ang a) (new one one)) (ang b).
Print Assumptions C14_path_symmetric.
Check C14_general_history : forall (L : libm) a b, aeqb (ang a) (ang b) = false ->
  aeqb (add_vv (ang a) (new one one)) (ang b) || aeqb (add_vv (ang b) (new one one)) (ang a) = false ->
  (0 <= blade (ang a) + blade (ang b) < 2 ^ 53)%Z ->
  fin (total_angle (sum_adjusted L a b) PI) -> Rabs (R_ (total_angle (sum_adjusted L a b) PI)) <= bpow radix2 42 ->
  canonp (rem (ang (gadd_vv L a b))) /\ (blade (ang a) + blade (ang b) <= blade (ang (gadd_vv L a b)))%Z.
Print Assumptions C14_general_history.
Check C14_general_upper : forall (L : libm) a b, aeqb (ang a) (ang b) = false ->
  aeqb (add_vv (ang a) (new one one)) (ang b) || aeqb (add_vv (ang b) (new one one)) (ang a) = false ->
  (0 <= blade (ang a) + blade (ang b) < 2 ^ 53)%Z ->
  fin (total_angle (sum_adjusted L a b) PI) -> Rabs (R_ (total_angle (sum_adjusted L a b) PI)) <= bpow radix2 42 ->
  R_ (total_angle (sum_adjusted L a b) PI) <= 4 ->
  (blade (ang a) + blade (ang b) <= blade (ang (gadd_vv L a b)) <= blade (ang a) + blade (ang b) + 4)%Z /\
  (blade (ang (gadd_vv L a b)) = (blade (ang a) + blade (ang b) + 4)%Z -> R_ (rem (ang (gadd_vv L a b))) <= / 256).
Print Assumptions C14_general_upper.
Check C14_general_bounds : forall (L : libm) a b, aeqb (ang a) (ang b) = false ->
  aeqb (add_vv (ang a) (new one one)) (ang b) || aeqb (add_vv (ang b) (new one one)) (ang a) = false ->
  (0 <= blade (ang a) + blade (ang b) < 2 ^ 40)%Z ->
  let at_ := atan2F L (fadd (fmul (mag a) (sinF L (grade_angle (ang a)))) (fmul (mag b) (sinF L (grade_angle (ang b)))))
                      (fadd (fmul (mag a) (cosF L (grade_angle (ang a)))) (fmul (mag b) (cosF L (grade_angle (ang b))))) in
  fin at_ -> Rabs (R_ at_) <= R_ PI ->
  canonp (rem (ang (gadd_vv L a b))) /\
  (blade (ang a) + blade (ang b) <= blade (ang (gadd_vv L a b)) <= blade (ang a) + blade (ang b) + 4)%Z /\
  (blade (ang (gadd_vv L a b)) = (blade (ang a) + blade (ang b) + 4)%Z -> R_ (rem (ang (gadd_vv L a b))) <= / 256).
Print Assumptions C14_general_bounds.
Check C14_new_blade_upper : forall p d, fast_path p d = false ->
  fin (total_angle p d) -> Rabs (R_ (total_angle p d)) <= bpow radix2 42 -> R_ (total_angle p d) <= 4 ->
  (blade (new p d) <= 4)%Z /\ (blade (new p d) = 4%Z -> R_ (rem (new p d)) <= / 256).
Print Assumptions C14_new_blade_upper.
Check C14_upper_inhabited :
  let a := {| mag := one; ang := {| rem := zero; blade := 0 |} |} in
  let b := {| mag := one; ang := {| rem := zero; blade := 1 |} |} in
  aeqb (ang a) (ang b) = false /\
  aeqb (add_vv (ang a) (new one one)) (ang b) || aeqb (add_vv (ang b) (new one one)) (ang a) = false /\
  (0 <= blade (ang a) + blade (ang b) < 2 ^ 40)%Z /\
  fin (atan2F trivial_libm zero zero) /\ Rabs (R_ (atan2F trivial_libm zero zero)) <= R_ PI.
Print Assumptions C14_upper_inhabited.
Check C14_general_commutes : forall (L : libm) a b, aeqb (ang a) (ang b) = false -> aeqb (ang b) (ang a) = false ->
  aeqb (add_vv (ang a) (new one one)) (ang b) || aeqb (add_vv (ang b) (new one one)) (ang a) = false ->
  ang (gadd_vv L a b) = ang (gadd_vv L b a).
Print Assumptions C14_general_commutes.
Check C14_grade_of_signs : forall a, Canon a ->
  (0 < cos (dirR a) -> 0 < sin (dirR a) -> grade a = 0%Z) /\
  (cos (dirR a) < 0 -> 0 < sin (dirR a) -> grade a = 1%Z) /\
  (cos (dirR a) < 0 -> sin (dirR a) < 0 -> grade a = 2%Z) /\
  (0 < cos (dirR a) -> sin (dirR a) < 0 -> grade a = 3%Z).
Print Assumptions C14_grade_of_signs.
Check C14_grade_from_direction : forall (L : libm) (u u2 : R) a b, cos_acc L u -> sin_acc L u -> atan2_acc L u2 -> u <= / 1000 ->
  canonp (rem (ang a)) -> canonp (rem (ang b)) ->
  aeqb (ang a) (ang b) = false ->
  aeqb (add_vv (ang a) (new one one)) (ang b) || aeqb (add_vv (ang b) (new one one)) (ang a) = false ->
  (0 <= blade (ang a) + blade (ang b) < 2 ^ 40)%Z ->
  fin (gadd_rad L a b) ->
  fin (fadd (fmul (mag a) (sinF L (grade_angle (ang a)))) (fmul (mag b) (sinF L (grade_angle (ang b))))) ->
  fin (fadd (fmul (mag a) (cosF L (grade_angle (ang a)))) (fmul (mag b) (cosF L (grade_angle (ang b))))) ->
  fin (total_angle (sum_adjusted L a b) PI) -> Rabs (R_ (total_angle (sum_adjusted L a b) PI)) <= bpow radix2 42 ->
  let r := gadd_vv L a b in
  let Vx := R_ (mag a) * cos (dir (ang a)) + R_ (mag b) * cos (dir (ang b)) in
  let Vy := R_ (mag a) * sin (dir (ang a)) + R_ (mag b) * sin (dir (ang b)) in
  let M := Rabs (R_ (mag a)) + Rabs (R_ (mag b)) in
  let E := M * (u + 3 / 1000000000000000) + 4 * bpow radix2 (-1075) in
  let S := R_ (mag a) * R_ (mag a) + R_ (mag b) * R_ (mag b) in
  let Bnd := S * (u + 1 / 100000000000000) + 10 * bpow radix2 (-1075) in
  let tolN := R_ eps10 + 3 / 100000000000000 + IZR (blade (ang a) + blade (ang b)) * (4 / 1000000000000000) in
  let T := sqrt Bnd * (1 + / 9007199254740992) + / 9007199254740992 * sqrt (Vx * Vx + Vy * Vy) + bpow radix2 (-1075)
           + 3 * E + (M + 2 * E) * (u2 + tolN) in
  (T < Vx -> T < Vy -> grade (ang r) = 0%Z) /\
  (Vx < - T -> T < Vy -> grade (ang r) = 1%Z) /\
  (Vx < - T -> Vy < - T -> grade (ang r) = 2%Z) /\
  (T < Vx -> Vy < - T -> grade (ang r) = 3%Z).
Print Assumptions C14_grade_from_direction.
Check C14_running_sum : forall (L : libm), atan2_range L -> forall xs acc, gwf acc -> Forall gwf xs ->
  (blade (ang acc) + bsum xs < 2 ^ 40)%Z ->
  forall n, let r := fold_left (gadd_vv L) (firstn n xs) acc in
  gwf r /\ (bmin (blade (ang acc)) xs <= blade (ang r) <= blade (ang acc) + bsum xs)%Z.
Print Assumptions C14_running_sum.
Check C14_step_blades : forall (L : libm), atan2_range L -> forall a b, gwf a -> gwf b ->
  (blade (ang a) + blade (ang b) < 2 ^ 40)%Z ->
  gwf (gadd_vv L a b) /\
  (Z.min (blade (ang a)) (blade (ang b)) <= blade (ang (gadd_vv L a b)) <= blade (ang a) + blade (ang b) + 4)%Z.
Print Assumptions C14_step_blades.
Check C14_running_defs :
  (forall L, atan2_range L <-> forall y x, fin (atan2F L y x) /\ Rabs (R_ (atan2F L y x)) <= R_ PI) /\
  (forall g, gwf g <-> canonp (rem (ang g)) /\ (0 <= blade (ang g))%Z) /\
  (bsum [] = 0%Z /\ forall x r, bsum (x :: r) = (blade (ang x) + 4 + bsum r)%Z) /\
  (forall m, bmin m [] = m) /\ (forall m x r, bmin m (x :: r) = bmin (Z.min m (blade (ang x))) r).
Print Assumptions C14_running_defs.
Check C14_running_inhabited : atan2_range trivial_libm /\
  (let g k := {| mag := one; ang := {| rem := zero; blade := k |} |} in
   gwf (g 0%Z) /\ Forall gwf [g 1%Z; g 2%Z; g 7%Z] /\ (blade (ang (g 0%Z)) + bsum [g 1%Z; g 2%Z; g 7%Z] < 2 ^ 40)%Z).
Print Assumptions C14_running_inhabited.
