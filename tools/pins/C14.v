From Coq Require Import ZArith List Bool Reals Lra.
From Flocq Require Import Core BinarySingleNaN.
Require Import GV.FloatBase GV.FloatLemmas GV.AngleM GV.AngleProofs GV.GeonumM GV.GeonumProofs GV.TraitsM GV.NewProofs GV.CtorProofs.
Open Scope R_scope.
Require Import GV.Properties.C14.
Check C14_same : forall (L : libm) a b, aeqb (ang a) (ang b) = true ->
  ang (gadd_vv L a b) = ang a /\ mag (gadd_vv L a b) = fadd (mag a) (mag b).
Print Assumptions C14_same.
Check C14_opposite : forall (L : libm) a b, aeqb (ang a) (ang b) = false ->
  aeqb (add_vv (ang a) (new one one)) (ang b) || aeqb (add_vv (ang b) (new one one)) (ang a) = true ->
  let diff := fsub (mag a) (mag b) in
  gadd_vv L a b =
    if flt (fabs diff) EPSILON then {| mag := zero; ang := new_with_blade (blade (ang a) + blade (ang b)) zero one |}
    else if fgt diff zero then {| mag := diff; ang := ang a |} else {| mag := fneg diff; ang := ang b |}.
Print Assumptions C14_opposite.
Check C14_path_symmetric : forall a b,
  aeqb (add_vv (ang a) (new one one)) (ang b) || aeqb (add_vv (ang b) (new one one)) (ang a) =
  aeqb (add_vv (ang b) (new one one)) (ang a) || aeqb (add_vv (ang a) (new one one)) (ang b).
Print Assumptions C14_path_symmetric.
Check C14_general_history : forall (L : libm) a b, aeqb (ang a) (ang b) = false ->
  aeqb (add_vv (ang a) (new one one)) (ang b) || aeqb (add_vv (ang b) (new one one)) (ang a) = false ->
  (0 <= blade (ang a) + blade (ang b) < 2 ^ 53)%Z ->
  fin (total_angle (sum_adjusted L a b) PI) -> Rabs (R_ (total_angle (sum_adjusted L a b) PI)) <= bpow radix2 42 ->
  canonp (rem (ang (gadd_vv L a b))) /\ (blade (ang a) + blade (ang b) <= blade (ang (gadd_vv L a b)))%Z.
Print Assumptions C14_general_history.
