From Coq Require Import ZArith List Bool Reals Lra.
From Flocq Require Import Core BinarySingleNaN.
Require Import GV.FloatBase GV.FloatLemmas GV.AngleM GV.AngleProofs GV.GeonumM GV.GeonumProofs GV.TraitsM GV.NewProofs GV.CtorProofs GV.PiBounds GV.TrigProofs GV.DotValue GV.DistValue GV.DirProofs GV.SymProofs GV.ClosureProofs GV.SwapProofs GV.TraitsProofs GV.BoundProofs GV.SumUpper GV.ProdProofs GV.FieldProofs GV.TanProofs.
Open Scope R_scope.
Require Import GV.Properties.C15.
Check C15_cos_encoding : forall (L : libm) a, fin (cosF L (grade_angle a)) ->
  gcos L a = {| mag := fabs (cosF L (grade_angle a));
               ang := {| rem := zero; blade := if Rlt_bool (R_ (cosF L (grade_angle a))) 0 then 2 else 0 |} |}.
Print Assumptions C15_cos_encoding.
Check C15_sin_encoding : forall (L : libm) a, fin (sinF L (grade_angle a)) ->
  gsin L a = {| mag := fabs (sinF L (grade_angle a));
               ang := {| rem := zero; blade := if Rlt_bool (R_ (sinF L (grade_angle a))) 0 then 3 else 1 |} |}.
Print Assumptions C15_sin_encoding.
Check C15_tan : forall (L : libm) a, gtan L a = gdiv_vv (gsin L a) (gcos L a).
Print Assumptions C15_tan.
Check C15_adj_opp : forall (L : libm) g,
  adj L g = gscale (gcos L (ang g)) (mag g) /\ opp L g = gscale (gsin L (ang g)) (mag g).
Print Assumptions C15_adj_opp.
Check C15_cos_value : forall (L : libm) (u : R) a, cos_acc L u -> canonp (rem a) ->
  let v := cosF L (grade_angle a) in
  fin v /\ Rabs (R_ v - cos (dir a)) <= u + 25 / 10000000000000000 /\
  gcos L a = {| mag := fabs v; ang := {| rem := zero; blade := if Rlt_bool (R_ v) 0 then 2 else 0 |} |}.
Print Assumptions C15_cos_value.
Check C15_sin_value : forall (L : libm) (u : R) a, sin_acc L u -> canonp (rem a) ->
  let v := sinF L (grade_angle a) in
  fin v /\ Rabs (R_ v - sin (dir a)) <= u + 25 / 10000000000000000 /\
  gsin L a = {| mag := fabs v; ang := {| rem := zero; blade := if Rlt_bool (R_ v) 0 then 3 else 1 |} |}.
Print Assumptions C15_sin_value.
Check C15_acc_inhabited : cos_acc ideal_libm (/ 4503599627370496) /\ sin_acc ideal_libm (/ 4503599627370496).
Print Assumptions C15_acc_inhabited.
Check C15_pythagoras : forall (L : libm) (u : R) a, cos_acc L u -> sin_acc L u -> u <= / 1000 -> canonp (rem a) ->
  let c := cosF L (grade_angle a) in let s := sinF L (grade_angle a) in
  Rabs (R_ c * R_ c + R_ s * R_ s - 1) <= 5 * (u + 25 / 10000000000000000).
Print Assumptions C15_pythagoras.
Check C15_adj_value : forall (L : libm) (u : R) g, cos_acc L u -> u <= / 1000 -> canonp (rem (ang g)) -> fin (mag (adj L g)) ->
  Rabs (R_ (mag (adj L g)) - Rabs (R_ (mag g)) * Rabs (cos (dir (ang g))))
    <= Rabs (R_ (mag g)) * (u + 3 / 1000000000000000) + bpow radix2 (-1075).
Print Assumptions C15_adj_value.
Check C15_opp_value : forall (L : libm) (u : R) g, sin_acc L u -> u <= / 1000 -> canonp (rem (ang g)) -> fin (mag (opp L g)) ->
  Rabs (R_ (mag (opp L g)) - Rabs (R_ (mag g)) * Rabs (sin (dir (ang g))))
    <= Rabs (R_ (mag g)) * (u + 3 / 1000000000000000) + bpow radix2 (-1075).
Print Assumptions C15_opp_value.
Check C15_tan_value : forall (L : libm) (u : R) a, cos_acc L u -> sin_acc L u -> u <= / 1000000 -> canonp (rem a) ->
  / 1000 <= Rabs (cos (dir a)) -> / 1000 <= Rabs (sin (dir a)) ->
  forall t, gtan L a = Some t -> fin (mag t) ->
  Rabs (R_ (mag t) - Rabs (sin (dir a)) / Rabs (cos (dir a)))
    <= (2000 * (u + 25 / 10000000000000000) + 3 * / 4503599627370496) * (1 + / 25) * (Rabs (sin (dir a)) / Rabs (cos (dir a))).
Print Assumptions C15_tan_value.
