From Coq Require Import ZArith List Bool Reals Lra.
From Flocq Require Import Core BinarySingleNaN.
Require Import GV.FloatBase GV.FloatLemmas GV.AngleM GV.AngleProofs GV.GeonumM GV.GeonumProofs GV.TraitsM.
Open Scope R_scope.
Require Import GV.Properties.C15.
Check C15_cos_encoding : forall (L : libm) a, fin (cosF L (grade_angle a)) ->
  gcos L a = {| mag := fabs (cosF L (grade_angle a));
               ang := {| rem := zero; blade := if Rlt_bool (R_ (cosF L (grade_angle a))) 0 then 2 else 0 |} |}.
Print Assumptions C15_cos_encoding.
Check C15_sin_encoding : forall (L : libm) a, fin (sinF L (grade_angle a)) ->
  gsin L a = {| mag := fabs (sinF L (grade_angle a));
               ang := {| rem := zero; blade := if Rlt_bool (R_ (sinF L (grade_angle a))) 0 then 3 else 1 |} |}.
Print Assumptions C15_sin_encoding.
Check C15_tan : forall (L : libm) a, gtan L a = gdiv_vv (gsin L a) (gcos L a).
Print Assumptions C15_tan.
Check C15_adj_opp : forall (L : libm) g,
  adj L g = gscale (gcos L (ang g)) (mag g) /\ opp L g = gscale (gsin L (ang g)) (mag g).
Print Assumptions C15_adj_opp.
