From Coq Require Import ZArith List Bool Reals Lra Sorting.Permutation Sorting.Sorted.
From Flocq Require Import Core BinarySingleNaN.
Require Import GV.FloatBase GV.FloatLemmas GV.AngleM GV.AngleProofs GV.GeonumM GV.Interp GV.OrderProofs.
Open Scope R_scope.
Require Import GV.Properties.C16.
Check C16_cmp_lex : forall a b, finA a -> finA b -> acmp a b = Some (alex a b).
Print Assumptions C16_cmp_lex.
Check C16_gcmp_lex : forall a b, finG a -> finG b -> gcmp a b = Some (glex a b).
Print Assumptions C16_gcmp_lex.
Check C16_order_laws :
  (forall a, alex a a = Eq) /\ (forall a b, alex b a = CompOpp (alex a b)) /\
  (forall a b c, alex a b = Lt -> alex b c = Lt -> alex a c = Lt) /\
  (forall a b, alex a b = Eq <-> blade a = blade b /\ R_ (rem a) = R_ (rem b)).
Print Assumptions C16_order_laws.
Check C16_gorder_laws :
  (forall a, glex a a = Eq) /\ (forall a b, glex b a = CompOpp (glex a b)) /\
  (forall a b c, glex a b = Lt -> glex b c = Lt -> glex a c = Lt).
Print Assumptions C16_gorder_laws.
Check C16_partial_cmp : forall a b, finA a -> finA b -> apartial_cmp a b = Some (acmp a b).
Print Assumptions C16_partial_cmp.
Check C16_gpartial_cmp : forall a b, finG a -> finG b -> gpartial_cmp a b = Some (gcmp a b).
Print Assumptions C16_gpartial_cmp.
Check C16_eq : forall a b, canonp (rem a) -> canonp (rem b) -> aeqb a b = true ->
  blade a = blade b /\ (Rabs (rnd (R_ (rem a) - R_ (rem b))) < R_ eps15 \/ R_ (rem a) = R_ (rem b)).
Print Assumptions C16_eq.
Check C16_geq : forall a b, fin (mag a) -> fin (mag b) -> canonp (rem (ang a)) -> canonp (rem (ang b)) ->
  geqb a b = true -> R_ (mag a) = R_ (mag b) /\ blade (ang a) = blade (ang b).
Print Assumptions C16_geq.
Check C16_cmp_eq_implies_eq : forall a b, finA a -> finA b -> acmp a b = Some Eq -> aeqb a b = true.
Print Assumptions C16_cmp_eq_implies_eq.
Check C16_eq_cmp_refuted :
  aeqb band_a band_b = true /\ acmp band_a band_b = Some Lt /\ blade band_a = blade band_b.
Print Assumptions C16_eq_cmp_refuted.
Check C16_sort : forall l, Forall finG l ->
  exists r, sort_model l = Some r /\ Permutation l r /\ Sorted gle_lex r /\ Forall finG r.
Print Assumptions C16_sort.
