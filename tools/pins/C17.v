From Coq Require Import ZArith List Bool Reals Lra.
From Flocq Require Import Core BinarySingleNaN.
Require Import GV.FloatBase GV.FloatLemmas GV.AngleM GV.GeonumM GV.CollM GV.OrderProofs GV.CollProofs GV.AngleProofs GV.NewProofs GV.CtorProofs GV.GeonumProofs GV.DistValue GV.SumProofs GV.TraitsM GV.TraitsProofs GV.BoundProofs GV.ClosureProofs GV.SumUpper GV.PiBounds GV.TrigProofs GV.DotValue GV.ProdProofs GV.DirProofs GV.FieldProofs GV.ConeProofs GV.Atan2Ideal GV.ConeDecide.
Import ListNotations.
Open Scope R_scope.
Require Import GV.Properties.C17.
Check C17_truncate : forall c t,
  truncate c t = filter (fun g => fgt (mag g) t) c /\ Subseq (truncate c t) c /\
  (forall g, In g (truncate c t) <-> In g c /\ fgt (mag g) t = true).
Print Assumptions C17_truncate.
Check C17_truncate_strict : forall c t g, fin (mag g) -> fin t ->
  (In g (truncate c t) <-> In g c /\ R_ t < R_ (mag g)).
Print Assumptions C17_truncate_strict.
Check C17_select_cone : forall (L : libm) c d h,
  select_cone L c d h = filter (cone_pred L d h) c /\ Subseq (select_cone L c d h) c /\
  (forall g, In g (select_cone L c d h) <-> In g c /\ cone_pred L d h g = true).
Print Assumptions C17_select_cone.
Check C17_cone_excludes_zero : forall (L : libm) d h g,
  cone_pred L d h g = true -> feq (fmul (mag g) (mag d)) zero = false.
Print Assumptions C17_cone_excludes_zero.
Check C17_scale_all : forall c f,
  scale_all c f = map (fun g => gscale g f) c /\ length (scale_all c f) = length c /\
  (forall i, nth_error (scale_all c f) i = option_map (fun g => gscale g f) (nth_error c i)).
Print Assumptions C17_scale_all.
Check C17_rotate_all : forall c r,
  rotate_all c r = map (fun g => grotate g r) c /\ length (rotate_all c r) = length c /\
  (forall i, nth_error (rotate_all c r) i = option_map (fun g => grotate g r) (nth_error c i)).
Print Assumptions C17_rotate_all.
Check C17_total : forall c, total_magnitude c = fold_left (fun acc g => fadd acc (mag g)) c nzero.
Print Assumptions C17_total.
Check C17_dominant : forall c, Forall (fun g => fin (mag g)) c ->
  (dominant c = Some None <-> c = []) /\
  (c <> [] -> exists d, dominant c = Some (Some d) /\ In d c /\ Forall (fun g => R_ (mag g) <= R_ (mag d)) c).
Print Assumptions C17_dominant.
Check C17_conversions : forall v : list geonum,
  cfrom v = v /\ cfrom_iter v = v /\ citer v = v /\ cinto_iter v = v /\ cas_ref v = v /\
  clen v = Z.of_nat (length v) /\ (cis_empty v = true <-> v = []).
Print Assumptions C17_conversions.
Check C17_total_value : forall c, fin (total_magnitude c) -> Forall (fun g => 0 <= R_ (mag g)) c ->
  Rabs (R_ (total_magnitude c) - rsum c)
    <= rsum c * ((1 + eps) ^ length c - 1) + INR (length c) * bpow radix2 (-1075) * ((1 + eps) ^ length c).
Print Assumptions C17_total_value.
Check C17_rsum_def : rsum [] = 0 /\ (forall g t, rsum (g :: t) = R_ (mag g) + rsum t) /\ eps = / 9007199254740992.
Print Assumptions C17_rsum_def.
Check C17_cone_pred_unfold : forall (L : libm) direction half g,
  cone_pred L direction half g =
    if feq (fmul (mag g) (mag direction)) zero then false
    else fle (acosF L (fclamp (cone_signed_cos L direction g) (fneg one) one)) half.
Print Assumptions C17_cone_pred_unfold.
Check C17_cone_signed_cos : forall (L : libm) (u : R) direction g, cos_acc L u -> u <= / 1000 ->
  canonp (rem (ang g)) -> canonp (rem (ang direction)) -> (0 <= blade (ang g))%Z -> (0 <= blade (ang direction))%Z ->
  fin (dot_value L g direction) -> fin (cone_signed_cos L direction g) ->
  bpow radix2 (-500) <= R_ (mag g) * R_ (mag direction) <= bpow radix2 500 ->
  Rabs (R_ (cone_signed_cos L direction g) - cos (dir (ang direction) - dir (ang g)))
    <= 21 / 10 * u + 201 / 1000000000000.
Print Assumptions C17_cone_signed_cos.
Check C17_cone_decides : forall (L : libm) (ua : R), acos_acc L ua -> forall (u : R) direction half g, cos_acc L u -> u <= / 1000 ->
  canonp (rem (ang g)) -> canonp (rem (ang direction)) -> (0 <= blade (ang g))%Z -> (0 <= blade (ang direction))%Z ->
  fin (dot_value L g direction) -> fin (cone_signed_cos L direction g) -> fin half ->
  bpow radix2 (-500) <= R_ (mag g) * R_ (mag direction) <= bpow radix2 500 ->
  feq (fmul (mag g) (mag direction)) zero = false ->
  let c := cos (dir (ang direction) - dir (ang g)) in
  let e := 21 / 10 * u + 201 / 1000000000000 in
  (cone_pred L direction half g = true ->
     0 <= R_ half + ua /\ (R_ half + ua <= Rtrigo1.PI -> cos (R_ half + ua) - e <= c)) /\
  (cone_pred L direction half g = false ->
     R_ half - ua < Rtrigo1.PI /\ (0 <= R_ half - ua -> c < cos (R_ half - ua) + e)).
Print Assumptions C17_cone_decides.
Check C17_acos_acc_def : forall L ua, acos_acc L ua <->
  forall x, fin x -> -1 <= R_ x <= 1 -> fin (acosF L x) /\ Rabs (R_ (acosF L x) - acos (R_ x)) <= ua.
Print Assumptions C17_acos_acc_def.
Check C17_cone_premises_inhabited : cos_acc ideal_libm3 (/ 4503599627370496) /\ acos_acc ideal_libm3 (/ 1125899906842624) /\
  / 4503599627370496 <= / 1000.
Print Assumptions C17_cone_premises_inhabited.
