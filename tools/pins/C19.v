From Coq Require Import ZArith List Bool Reals Lra.
From Flocq Require Import Core BinarySingleNaN.
Require Import GV.FloatBase GV.FloatLemmas GV.AngleM GV.AngleProofs GV.GeonumM GV.GeonumProofs GV.TraitsM GV.TraitsProofs GV.BoundProofs GV.NewProofs GV.CtorProofs GV.ClosureProofs GV.PiBounds GV.TrigProofs GV.DotValue GV.ProdProofs GV.SumUpper GV.DistValue GV.FieldProofs GV.DirProofs GV.SumDir GV.SnellProofs GV.Poynting.
Import ListNotations.
Open Scope R_scope.
Require Import GV.Properties.C19.
Check C19_activation_keeps_angle : forall (L : libm) g act, ang (activate L g act) = ang g.
Print Assumptions C19_activation_keeps_angle.
Check C19_relu : forall (L : libm) g,
  (fgt (cosF L (grade_angle (ang g))) zero = true -> mag (activate L g ReLU) = mag g) /\
  (fgt (cosF L (grade_angle (ang g))) zero = false -> mag (activate L g ReLU) = zero).
Print Assumptions C19_relu.
Check C19_magnitudes : forall (L : libm) g t x vel k w n,
  mag (propagate L g t x vel) = mag g /\ mag (disperse L x t k w) = one /\ mag (refract L g n) = mag g.
Print Assumptions C19_magnitudes.
Check C19_negative_charge : forall a, canonp (rem a) -> steps_to a (geometric_add a half_turn) 2.
Print Assumptions C19_negative_charge.
Check C19_otf_phase : forall g f w, canonp (rem (ang g)) -> steps_to (ang g) (ang (otf g f w)) 1.
Print Assumptions C19_otf_phase.
Check C19_magnify_intensity : forall (L : libm) g m,
  mag (magnify L g m) = fmul (mag g) (fdiv one (fmul (mag m) (mag m))).
Print Assumptions C19_magnify_intensity.
Check C19_tanh_bound : forall (L : libm) g, tanh_range L -> fin (mag g) -> Rabs (R_ (mag g)) <= bpow radix2 1000 ->
  Rabs (R_ (mag (activate L g Tanh))) <= Rabs (R_ (mag g)).
Print Assumptions C19_tanh_bound.
Check C19_range_hyps_inhabited : exists L, cos_range L /\ tanh_range L.
Print Assumptions C19_range_hyps_inhabited.
Check C19_sigmoid_bound : forall (L : libm) g, exp_range L -> fin (mag g) -> 0 <= R_ (mag g) <= bpow radix2 1000 ->
  let r := activate L g Sigmoid in
  ang r = ang g /\ fin (mag r) /\ 0 <= R_ (mag r) <= R_ (mag g).
Print Assumptions C19_sigmoid_bound.
Check C19_exp_range_inhabited : exists L, exp_range L.
Print Assumptions C19_exp_range_inhabited.
Check C19_inverse_field_value : forall (L : libm) (up : R) charge distance power a constant, 0 <= up <= / 200 ->
  fin (powF L (mag distance) (mag power)) ->
  Rabs (R_ (powF L (mag distance) (mag power)) - Rpower (R_ (mag distance)) (R_ (mag power)))
    <= up * Rpower (R_ (mag distance)) (R_ (mag power)) ->
  fin (mag (inverse_field L charge distance power a constant)) ->
  bpow radix2 (-500) <= R_ (mag constant) * R_ (mag charge) ->
  bpow radix2 (-500) <= R_ (mag constant) * R_ (mag charge) / Rpower (R_ (mag distance)) (R_ (mag power)) ->
  let ideal := R_ (mag constant) * R_ (mag charge) / Rpower (R_ (mag distance)) (R_ (mag power)) in
  Rabs (R_ (mag (inverse_field L charge distance power a constant)) - ideal)
    <= (up + 3 * / 4503599627370496) * (1 + / 25) * ideal.
Print Assumptions C19_inverse_field_value.
Check C19_wire_field_value : forall r current permeability,
  fin (mag (wire_magnetic_field r current permeability)) ->
  bpow radix2 (-500) <= R_ (mag permeability) * R_ (mag current) ->
  bpow radix2 (-500) <= R_ (mag r) <= bpow radix2 500 ->
  bpow radix2 (-500) <= R_ (mag permeability) * R_ (mag current) / (2 * Rtrigo1.PI * R_ (mag r)) ->
  let ideal := R_ (mag permeability) * R_ (mag current) / (2 * Rtrigo1.PI * R_ (mag r)) in
  Rabs (R_ (mag (wire_magnetic_field r current permeability)) - ideal) <= 42 / 10 * / 4503599627370496 * ideal.
Print Assumptions C19_wire_field_value.
Check C19_snell : forall (L : libm) (u ua : R) g ri, sin_acc L u -> u <= / 1000 -> canonp (rem (ang g)) ->
  fin (mag ri) -> 1 / 1024 <= R_ (mag ri) <= 1024 ->
  let arg := fdiv (sinF L (grade_angle (ang g))) (mag ri) in
  let as_ := asinF L arg in
  fin as_ -> Rabs (R_ as_) <= 2 -> Rabs (sin (R_ as_) - R_ arg) <= ua ->
  let r := refract L g ri in
  mag r = mag g /\ Canon (ang r) /\
  Rabs (sin (dirR (ang r)) - sin (dir (ang g)) / R_ (mag ri))
    <= ua + R_ eps10 + 3 / 100000000000000 + (u + 3 / 1000000000000000) / R_ (mag ri).
Print Assumptions C19_snell.
Check C19_poynting_value : forall (L : libm) (u : R) a b, sin_acc L u -> u <= / 1000 ->
  canonp (rem (ang a)) -> canonp (rem (ang b)) -> (0 <= blade (ang a))%Z -> (0 <= blade (ang b))%Z ->
  fin (mag (wedge L a b)) -> fin (mag (poynting_vector L a b)) ->
  let mu := R_ VACUUM_PERMEABILITY in
  let X := R_ (mag a) * R_ (mag b) * Rabs (sin (dir (ang b) - dir (ang a))) in
  let B := Rabs (R_ (mag a) * R_ (mag b)) * (u + 10002 / 100000000000000) + bpow radix2 (-1073) in
  ang (poynting_vector L a b) = ang (wedge L a b) /\
  Rabs (R_ (mag (poynting_vector L a b)) - X / mu) <= (B + / 9007199254740992 * (Rabs X + B)) / mu + bpow radix2 (-1075).
Print Assumptions C19_poynting_value.
Check C19_mu0_value : fin VACUUM_PERMEABILITY /\ R_ VACUUM_PERMEABILITY = 5934300740056779 * / 4722366482869645213696.
Print Assumptions C19_mu0_value.
