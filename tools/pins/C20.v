From Coq Require Import List String Bool.
Require Import GV.FeatureModel GVgen.FeaturesGen GV.Features.
Import ListNotations.
Open Scope string_scope.
Require Import GV.Properties.C20.
Check C20_closed : forall S : config, closed_under items S = true.
Print Assumptions C20_closed.
Check C20_usable : forall (S : config) (f : feat), usable items S f = true.
Print Assumptions C20_usable.
Check C20_helpers_off : forall S : config, helpers_off items S = true.
Print Assumptions C20_helpers_off.
Check C20_default_empty : default_features = [] /\ config_of default_features = empty_config.
Print Assumptions C20_default_empty.
Check C20_all_alias :
  config_of all_alias = mkCfg true true true true true true /\
  forallb (fun d => match snd d with [] => true | _ => false end) feature_deps = true /\
  map feat_name all_feats = declared_features.
Print Assumptions C20_all_alias.
Check C20_core_cfg_free :
  core_cfg_free items = true /\ own_feature_only items = true /\ inline_cfg_uses = [].
Print Assumptions C20_core_cfg_free.
